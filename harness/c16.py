"""C16 Buffered and text stream wrappers are transparent to chunking.

Correspondence: the REAL BufferedByteReceiveStream / TextReceiveStream / TextSendStream from
/repo/src over in-memory fake wrapped streams vs. the Lean models (md_buffered, md_text), whole
cases at a time, compared on return values, exception classes, the public `buffer` property
after every call and what the wrapped stream has left.

Oracle (written from the property text, not from the model): per call, with
`all0 = buffer + undelivered rest` before the call,
  * conservation: handed-out bytes (+ the delimiter a successful receive_until consumes)
    + buffer + rest afterwards == all0 (feed_data: appended to the buffer); nothing dropped,
    duplicated or reordered; a failing call hands out nothing;
  * receive(n): ValueError iff n < 1; else 1..n bytes; EndOfStream only when nothing is pending;
  * receive_exactly(n): exactly n bytes == all0[:n]; IncompleteRead only if fewer than n bytes
    existed and the wrapped stream is exhausted;
  * receive_until(d, m): success == all0[:all0.find(d)] (naive reference), delimiter consumed and
    not in the result; DelimiterNotFound only if d is absent from all0[:m]; IncompleteRead only
    if d is absent from all0 and the wrapped stream is exhausted;
  * text: the strings returned are non-empty and concatenate to codecs.decode(whole input);
    TextSendStream -> any re-chunking -> TextReceiveStream is the identity on the text.
"""

from __future__ import annotations

import codecs
import itertools
import json
import random
from typing import Any

from anyio import (
    ClosedResourceError,
    DelimiterNotFound,
    EndOfStream,
    IncompleteRead,
)
from anyio.abc import ByteReceiveStream, ObjectReceiveStream, ObjectSendStream
from anyio.streams.buffered import BufferedByteReceiveStream
from anyio.streams.text import TextReceiveStream, TextSendStream

from .common import Ctx, Disagreement, Result, Violation, load_corpus, run_model

# F9 (BOM on every send) was repaired in /repo (b9ceb54); the round trip is asserted for BOM
# codecs with any number of sends.  True would only count such cases as information.
KNOWN_BOM_PER_SEND = False

ALPHABET = b"ab|"


# --------------------------------------------------------------------------- fakes


class FakeByteStream(ByteReceiveStream):
    """ByteReceiveStream honouring max_bytes; `script` = how many of the available bytes the
    successive receive() calls return (clamped to 1..max_bytes; no limit once used up)."""

    def __init__(self, chunks: list[bytes], script: list[int]):
        self.chunks = list(chunks)
        self.script = list(script)
        self.closed = False
        self.calls = 0

    async def receive(self, max_bytes: int = 65536) -> bytes:
        self.calls += 1
        if self.closed:
            raise ClosedResourceError
        if not self.chunks:
            raise EndOfStream
        k = self.script.pop(0) if self.script else max_bytes
        m = max(1, min(k, max_bytes))
        head = self.chunks[0]
        if len(head) <= m:
            return self.chunks.pop(0)
        self.chunks[0] = head[m:]
        return head[:m]

    async def aclose(self) -> None:
        self.closed = True

    def rest(self) -> bytes:
        return b"".join(self.chunks)


class FakeObjStream(ObjectReceiveStream[bytes]):
    def __init__(self, chunks: list[bytes]):
        self.chunks = list(chunks)
        self.closed = False
        self.calls = 0

    async def receive(self) -> bytes:
        self.calls += 1
        if self.closed:
            raise ClosedResourceError
        if not self.chunks:
            raise EndOfStream
        return self.chunks.pop(0)

    async def aclose(self) -> None:
        self.closed = True

    def rest(self) -> bytes:
        return b"".join(self.chunks)


class CollectSend(ObjectSendStream[bytes]):
    def __init__(self) -> None:
        self.items: list[bytes] = []

    async def send(self, item: bytes) -> None:
        self.items.append(bytes(item))

    async def aclose(self) -> None:
        pass


def drive(coro: Any) -> Any:
    """Run a coroutine that never really suspends (the fakes return at once)."""
    try:
        coro.send(None)
    except StopIteration as e:
        return e.value
    coro.close()
    raise RuntimeError("coroutine suspended: the wrapper awaited something else than the fake")


def hx(b: bytes) -> str:
    return b.hex() if b else "."


def unhx(s: str) -> bytes:
    return b"" if s == "." else bytes.fromhex(s)


EXC = [(ValueError, "value"), (ClosedResourceError, "closed"), (EndOfStream, "eos"),
       (IncompleteRead, "incomplete"), (DelimiterNotFound, "notfound")]


def exc_name(e: BaseException) -> str:
    for cls, name in EXC:
        if type(e) is cls:
            return name
    return "exc:" + type(e).__name__


# --------------------------------------------------------------------------- buffered: impl + oracle


def buf_line(case: dict) -> str:
    calls = []
    for c in case["calls"]:
        if c[0] in ("r", "x"):
            calls.append(f"{c[0]}:{c[1]}")
        elif c[0] == "u":
            calls.append(f"u:{c[1]}:{c[2]}")
        elif c[0] == "f":
            calls.append(f"f:{c[1]}")
        else:
            calls.append("c")
    chunks = ",".join(case["chunks"]) if case["chunks"] else "-"
    env = ",".join(map(str, case["env"])) if case["env"] else "-"
    return " ".join(["case", case["kind"], chunks, env] + calls)


def run_buf(case: dict, stats: dict) -> tuple[str, str | None, bool]:
    """-> (canonical observation line, oracle complaint or None, non-trivial?)"""
    chunks = [unhx(c) for c in case["chunks"]]
    src: Any = FakeByteStream(chunks, case["env"]) if case["kind"] == "b" else FakeObjStream(chunks)
    st = BufferedByteReceiveStream(src)
    outs: list[str] = []
    bad: str | None = None
    nontrivial = False
    closed = False
    clean_chunks = all(len(c) > 0 for c in chunks)
    ops = stats.setdefault("buf_ops", {})
    pulls = stats.setdefault("buf_wrapped_receives_per_call", {})
    for c in case["calls"]:
        b0, r0 = st.buffer, src.rest()
        all0 = b0 + r0
        calls0 = src.calls
        res: bytes | None = None
        err = None
        try:
            if c[0] == "r":
                res = drive(st.receive(c[1]))
            elif c[0] == "x":
                res = drive(st.receive_exactly(c[1]))
            elif c[0] == "u":
                res = drive(st.receive_until(unhx(c[1]), c[2]))
            elif c[0] == "f":
                st.feed_data(unhx(c[1]))
            else:
                drive(st.aclose())
                closed = True
        except Exception as e:  # noqa: BLE001
            err = exc_name(e)
        b1, r1 = st.buffer, src.rest()
        npull = src.calls - calls0
        outs.append(("err:" + err if err else "ok:" + hx(res or b"")) + "/" + hx(b1))
        key = f"{c[0]}:{err or 'ok'}"
        ops[key] = ops.get(key, 0) + 1
        pulls[str(min(npull, 4))] = pulls.get(str(min(npull, 4)), 0) + 1
        if npull >= 2 or err in ("incomplete", "notfound") or (c[0] in "rxu" and not err and b1):
            nontrivial = True
        if bad:
            continue
        # ---- oracle
        if res is not None and not isinstance(res, bytes):
            bad = f"{c[0]}: returned {type(res).__name__}, not bytes"
            continue
        if c[0] == "f":
            if b1 != b0 + unhx(c[1]) or r1 != r0:
                bad = "conservation: feed_data did not append exactly the fed bytes to the buffer"
            continue
        if c[0] == "c":
            if b1 + r1 != all0:
                bad = "conservation: aclose changed the pending bytes"
            continue
        handed = b"" if err else (res + (unhx(c[1]) if c[0] == "u" else b""))
        if handed + b1 + r1 != all0:
            what = "failing call consumed bytes" if err else "bytes dropped, duplicated or reordered"
            bad = (f"conservation: {what}: call {c} handed {handed!r}, then buffer {b1!r} + rest "
                   f"{r1!r} != pending before {all0!r}")
            continue
        if err and err.startswith("exc:"):
            bad = f"{c[0]}: unexpected exception {err}"
            continue
        if err == "closed":
            if not closed:
                bad = f"{c[0]}: ClosedResourceError on an open stream"
            continue
        if c[0] == "r":
            n = c[1]
            if n < 1:
                if err != "value":
                    bad = f"receive: receive({n}) did not raise ValueError"
            elif err == "value":
                bad = f"receive: ValueError for max_bytes={n}"
            elif err == "eos":
                if all0:
                    bad = f"receive: EndOfStream with {len(all0)} bytes pending"
            elif err:
                bad = f"receive: unexpected {err}"
            elif closed:
                bad = "receive: returned data on a closed stream"
            elif not (len(res) <= n and (len(res) >= 1 or not clean_chunks)):
                bad = f"receive: receive({n}) returned {len(res)} bytes"
        elif c[0] == "x":
            n = c[1]
            if err == "incomplete":
                if len(all0) >= n:
                    bad = f"exactly: IncompleteRead although {len(all0)} >= {n} bytes were available"
                elif r1:
                    bad = "exactly: IncompleteRead before the end of the wrapped stream"
            elif err:
                bad = f"exactly: unexpected {err}"
            elif len(res) != n:
                bad = f"exactly: receive_exactly({n}) returned {len(res)} bytes"
        else:
            d, m = unhx(c[1]), c[2]
            idx = all0.find(d)
            if err == "notfound":
                if all0[:m].find(d) >= 0:
                    bad = (f"until: DelimiterNotFound although {d!r} occurs in the first {m} bytes "
                           f"of {all0!r}")
            elif err == "incomplete":
                if idx >= 0:
                    bad = f"until: IncompleteRead although {d!r} occurs in {all0!r}"
                elif r1:
                    bad = "until: IncompleteRead before the end of the wrapped stream"
            elif err:
                bad = f"until: unexpected {err}"
            elif idx < 0 or res != all0[:idx]:
                bad = (f"until: receive_until({d!r},{m}) on {all0!r} returned {res!r}, reference "
                       f"{all0[:idx] if idx >= 0 else None!r}")
            elif d in res:
                bad = "until: result contains the delimiter"
    return " ".join(outs + ["rest=" + hx(src.rest())]), bad, nontrivial


# --------------------------------------------------------------------------- buffered: generation


def compositions(n: int):
    """all ways to cut a string of length n into non-empty consecutive chunks (as cut masks)"""
    if n == 0:
        yield ()
        return
    for mask in range(1 << (n - 1)):
        cuts = [i + 1 for i in range(n - 1) if mask >> i & 1]
        yield tuple(cuts)


def cut(data: bytes, cuts: tuple[int, ...]) -> list[bytes]:
    if not data:
        return []
    pts = [0, *cuts, len(data)]
    return [data[a:b] for a, b in zip(pts, pts[1:])]


DELIMS = [bytes(t) for k in (1, 2) for t in itertools.product(ALPHABET, repeat=k)] + [
    b"|||", b"a|b", b"ab|", b"|ab", b"aba", b"aaa", b"||a", b"b||"]


def all_single_calls() -> list[list]:
    calls: list[list] = [["r", n] for n in range(0, 6)] + [["x", n] for n in range(0, 7)]
    calls += [["u", d.hex(), m] for d in DELIMS for m in range(0, 9)]
    return calls


def rand_bytes(rng: random.Random, lo: int, hi: int) -> bytes:
    return bytes(rng.choice(ALPHABET) for _ in range(rng.randint(lo, hi)))


def rand_call(rng: random.Random, data: bytes, big: bool) -> list:
    r = rng.random()
    top = 12 if big else 6
    if r < 0.27:
        return ["r", rng.randint(0 if rng.random() < 0.1 else 1, top)]
    if r < 0.52:
        return ["x", rng.randint(0, top)]
    if r < 0.87:
        if data and rng.random() < 0.5:  # a delimiter that does occur somewhere
            i = rng.randrange(len(data))
            d = data[i: i + rng.randint(1, 3)]
        else:
            d = rand_bytes(rng, 1, 3)
        return ["u", d.hex(), rng.randint(0, 8) if not big else rng.randint(0, 40)]
    if r < 0.97:
        return ["f", hx(rand_bytes(rng, 0, 3))]
    return ["c"]


def rand_env(rng: random.Random, n: int) -> list[int]:
    r = rng.random()
    if r < 0.25:
        return []
    return [rng.choice((1, 1, 2, 3, 5, 70000)) for _ in range(rng.randint(1, n + 2))]


def mk_buf_case(rng: random.Random, data: bytes, chunks: list[bytes], kind: str, ncalls: int,
                big: bool = False) -> dict:
    return {"t": "buf", "kind": kind, "chunks": [hx(c) for c in chunks],
            "env": rand_env(rng, len(data)) if kind == "b" else [],
            "calls": [rand_call(rng, data, big) for _ in range(ncalls)]}


def gen_small_scope(rng: random.Random, maxlen: int, keep: float, seqs: int, maxcalls: int):
    """every byte string over {a,b,|} up to maxlen x every chunking x both kinds (each kept with
    probability `keep`), each with `seqs` random call sequences of 1..maxcalls calls"""
    for n in range(0, maxlen + 1):
        for t in itertools.product(ALPHABET, repeat=n):
            data = bytes(t)
            for cuts in compositions(n):
                if keep < 1.0 and rng.random() >= keep:
                    continue
                chunks = cut(data, cuts)
                for kind in "bo":
                    for _ in range(seqs):
                        yield mk_buf_case(rng, data, chunks, kind, rng.randint(1, maxcalls))


def gen_single_call_sweep(rng: random.Random, maxlen: int, keep: float):
    """all single calls (all small n, the delimiter table, max_bytes 0..8), optionally after a
    feed_data, on every string/chunking/kind up to maxlen"""
    calls = all_single_calls()
    for n in range(0, maxlen + 1):
        for t in itertools.product(ALPHABET, repeat=n):
            data = bytes(t)
            for cuts in compositions(n):
                chunks = [hx(c) for c in cut(data, cuts)]
                for kind in "bo":
                    for c in calls:
                        if keep < 1.0 and rng.random() >= keep:
                            continue
                        pre = [["f", hx(rand_bytes(rng, 1, 2))]] if rng.random() < 0.15 else []
                        yield {"t": "buf", "kind": kind, "chunks": chunks,
                               "env": rand_env(rng, n) if kind == "b" else [], "calls": pre + [c]}


def gen_random_long(rng: random.Random, count: int):
    for _ in range(count):
        data = rand_bytes(rng, 7, 40)
        k = rng.randint(0, min(8, len(data) - 1))
        cuts = tuple(sorted(rng.sample(range(1, len(data)), k)))
        chunks = cut(data, cuts)
        if rng.random() < 0.05:  # misbehaving wrapped stream: an empty chunk (information only)
            chunks.insert(rng.randint(0, len(chunks)), b"")
        yield mk_buf_case(rng, data, chunks, rng.choice("bo"), rng.randint(2, 6), big=True)


# --------------------------------------------------------------------------- text


MODEL_ENCODINGS = ["utf-8", "latin-1", "utf-16", "utf-16-le", "utf-16-be", "utf-32", "utf-32-le",
                   "utf-32-be"]
ORACLE_ONLY_ENCODINGS = ["utf-8-sig"]
BOM_ENCODINGS = {"utf-16", "utf-32", "utf-8-sig"}
POOL = {1: "aZ~\x00", 2: "\xe9\xdf\u07ff\x80\xff", 3: "\u20ac\ufffd\u0800\ufeff\ud7ff\uffff",
        4: "\U0001f600\U00010000\U0010ffff"}
LATIN = "aZ\x00\x80\xe9\xff"


def rand_text(rng: random.Random, enc: str, lo: int, hi: int) -> str:
    n = rng.randint(lo, hi)
    if enc == "latin-1":
        return "".join(rng.choice(LATIN) for _ in range(n))
    return "".join(rng.choice(POOL[rng.choice((1, 2, 3, 4))]) for _ in range(n))


def cps(s: str) -> str:
    return ".".join(format(ord(c), "x") for c in s)


def text_lines(case: dict) -> list[str]:
    if case["enc"] not in MODEL_ENCODINGS:
        return []
    if case["t"] == "recv":
        return [f"recv {case['enc']} " + (",".join(case["chunks"]) if case["chunks"] else "-")]
    items = ",".join(cps(s) if s else "_" for s in case["items"]) if case["items"] else "-"
    return [f"send {case['enc']} {items}"]  # the second line depends on the real wire: added in run


def recv_all(enc: str, chunks: list[bytes]) -> tuple[list[str], str]:
    r = TextReceiveStream(FakeObjStream(chunks), encoding=enc)
    out: list[str] = []
    while True:
        try:
            out.append(drive(r.receive()))
        except EndOfStream:
            return out, "eos"
        except UnicodeDecodeError:
            return out, "decode"
        if len(out) > len(chunks) + 2:
            return out, "runaway"


def fold_law(enc: str, chunks: list[bytes], stats: dict) -> str | None:
    """CPython's incremental decoder behaves as a fold over bytes: feeding the chunks one by
    one gives the same output and the same final state as feeding their concatenation."""
    mk = codecs.getincrementaldecoder(enc)
    d1, d2 = mk(), mk()
    try:
        a = "".join(d1.decode(c) for c in chunks)
        b = d2.decode(b"".join(chunks))
    except UnicodeDecodeError:
        return None
    stats["fold_law_checked"] = stats.get("fold_law_checked", 0) + 1
    if a != b or d1.getstate() != d2.getstate():
        return f"fold-law: CPython incremental decoder {enc} is not a fold over bytes on {chunks!r}"
    return None


def run_text(case: dict, stats: dict) -> tuple[list[str], list[str], str | None, bool]:
    """-> (model request lines, impl observation lines, oracle complaint, non-trivial?)"""
    enc = case["enc"]
    in_model = enc in MODEL_ENCODINGS
    ops = stats.setdefault("text_ops", {})
    reqs: list[str] = []
    obs: list[str] = []
    bad: str | None = None
    if case["t"] == "recv":
        chunks = [unhx(c) for c in case["chunks"]]
        whole = b"".join(chunks)
        outs, end = recv_all(enc, chunks)
        if in_model:
            reqs = text_lines(case)
            obs = [" ".join([cps(s) for s in outs] + ["!" + end])]
        ops[f"recv:{enc}:{end}"] = ops.get(f"recv:{enc}:{end}", 0) + 1
        try:
            ref = codecs.getincrementaldecoder(enc)().decode(whole)
        except UnicodeDecodeError:
            ref = None
        if ref is not None:
            if end != "eos":
                bad = f"text-chunking: {enc} receive ended with {end} on well-formed input"
            elif "".join(outs) != ref:
                bad = (f"text-chunking: {enc} chunks {case['chunks']} decode to {outs!r}, whole "
                       f"input decodes to {ref!r}")
            elif any(s == "" for s in outs):
                bad = "text-chunking: receive() returned an empty string"
        bad = bad or fold_law(enc, chunks, stats)
        nontrivial = len(outs) < len([c for c in chunks if c]) or enc in BOM_ENCODINGS
        return reqs, obs, bad, nontrivial
    # round trip
    items: list[str] = case["items"]
    snd = CollectSend()
    ts = TextSendStream(snd, encoding=enc)
    status = "ok"
    sent_ok: list[str] = []
    for it in items:
        try:
            drive(ts.send(it))
            sent_ok.append(it)
        except UnicodeEncodeError:
            status = "encode"
            break
    wire = list(snd.items)
    flat = b"".join(wire)
    rechunked = cut(flat, tuple(c for c in case.get("cuts", []) if 0 < c < len(flat)))
    outs, end = recv_all(enc, rechunked)
    if in_model:
        reqs = text_lines(case) + [f"recv {enc} " + (",".join(hx(c) for c in rechunked) if rechunked else "-")]
        obs = [(",".join(hx(c) for c in wire) if wire else "-") + " !" + status,
               " ".join([cps(s) for s in outs] + ["!" + end])]
    ops[f"rt:{enc}:{status}:{end}"] = ops.get(f"rt:{enc}:{status}:{end}", 0) + 1
    expected = "".join(sent_ok)
    multi_bom = enc in BOM_ENCODINGS and len(sent_ok) >= 2
    if end != "eos" or "".join(outs) != expected or any(s == "" for s in outs):
        if multi_bom and KNOWN_BOM_PER_SEND:
            stats["info_bom_roundtrip_not_identity"] = stats.get("info_bom_roundtrip_not_identity", 0) + 1
        else:
            tag = "text-roundtrip-bom" if multi_bom and end == "eos" else "text-roundtrip"
            bad = (f"{tag}: {enc} sent {sent_ok!r}, wire {[hx(w) for w in wire]} re-chunked as "
                   f"{[hx(c) for c in rechunked]}, received {outs!r} ending with {end}")
    bad = bad or fold_law(enc, rechunked, stats)
    return reqs, obs, bad, len(outs) < len([c for c in rechunked if c]) or multi_bom


def run_rt_err(case: dict, stats: dict) -> str | None:
    """round trip in which some sends fail with an encoding error: the failed item is not sent,
    and the items sent before and after it still arrive unchanged (oracle only)"""
    enc = case["enc"]
    snd = CollectSend()
    ts = TextSendStream(snd, encoding=enc)
    sent_ok: list[str] = []
    failed = 0
    for it in case["items"]:
        before = len(snd.items)
        try:
            drive(ts.send(it))
            sent_ok.append(it)
        except UnicodeEncodeError:
            failed += 1
            if len(snd.items) != before:
                return f"text-roundtrip: {enc} a failed send({it!r}) still wrote to the transport"
    flat = b"".join(snd.items)
    rechunked = cut(flat, tuple(c for c in case.get("cuts", []) if 0 < c < len(flat)))
    outs, end = recv_all(enc, rechunked)
    k = f"rterr:{enc}:{failed}"
    ops = stats.setdefault("text_ops", {})
    ops[k] = ops.get(k, 0) + 1
    if end != "eos" or "".join(outs) != "".join(sent_ok):
        return (f"text-roundtrip: {enc} items {case['items']!r} ({failed} failed to encode): sent "
                f"{sent_ok!r}, received {outs!r} ending with {end}")
    return None


class GatedObjStream(ObjectReceiveStream[bytes]):
    """object stream whose receive() suspends until the harness releases the next chunk"""

    def __init__(self) -> None:
        self.pending: list[Any] = []

    async def receive(self) -> bytes:
        import asyncio

        fut = asyncio.get_running_loop().create_future()
        self.pending.append(fut)
        return await fut

    async def aclose(self) -> None:
        pass


def run_cfeed(case: dict, stats: dict) -> str | None:
    """feed_data() while a receive call is suspended on the wrapped stream: nothing may be lost
    (oracle only; the pure model treats calls as atomic)"""
    import asyncio

    chunk, fed, call = unhx(case["chunk"]), unhx(case["fed"]), case["call"]

    async def main() -> str | None:
        src = GatedObjStream()
        bs = BufferedByteReceiveStream(src)
        if call[0] == "receive":
            coro = bs.receive(call[1])
        elif call[0] == "exactly":
            coro = bs.receive_exactly(call[1])
        else:
            coro = bs.receive_until(unhx(call[1]), call[2])
        task = asyncio.ensure_future(coro)
        await asyncio.sleep(0)
        if not src.pending:
            task.cancel()
            return None
        bs.feed_data(fed)
        src.pending.pop(0).set_result(chunk)
        got = b""
        try:
            got = await asyncio.wait_for(asyncio.shield(task), 0.5)
        except (asyncio.TimeoutError, Exception):
            task.cancel()
        rest = bytes(bs.buffer)
        have = sorted(got + rest)
        if call[0] == "until" and got is not None:
            have = sorted(got + rest + (unhx(call[1]) if task.done() and not task.cancelled()
                                        and task.exception() is None else b""))
        want = sorted(chunk + fed)
        if task.done() and not task.cancelled() and have != want:
            return (f"conservation: feed_data({fed!r}) during a suspended {call}: chunk {chunk!r} -> "
                    f"returned {got!r}, buffer {rest!r}: bytes lost or duplicated")
        return None

    ops = stats.setdefault("ops", {})
    ops["cfeed:" + call[0]] = ops.get("cfeed:" + call[0], 0) + 1
    loop = asyncio.new_event_loop()
    try:
        return loop.run_until_complete(main())
    finally:
        loop.close()


def run_iseq(case: dict, stats: dict) -> str | None:
    """A sequence of calls on one BufferedByteReceiveStream over a gated object stream in which calls
    are interrupted (cancelled) while they wait for the wrapped stream, data is fed in between, and
    the next call starts from whatever is buffered.  Judged against the property text only: the bytes
    handed out (plus consumed delimiters) are always the next bytes of what entered the stream, in
    order; receive gives 1..n bytes; receive_exactly exactly n; receive_until everything before the
    FIRST occurrence of the delimiter; an interrupted call consumes nothing."""
    import asyncio

    chunks = [unhx(c) for c in case["chunks"]]

    async def main() -> str | None:
        src = GatedObjStream()
        bs = BufferedByteReceiveStream(src)
        entered = bytearray()  # in the order the bytes entered the stream's buffer
        handed = 0  # how many of them were handed out (returned or consumed as delimiter)
        left = list(chunks)
        for op in case["ops"]:
            if op[0] == "feed":
                bs.feed_data(unhx(op[1]))
                entered += unhx(op[1])
                continue
            allow = op[-1]
            if op[0] == "exactly_all":
                # exactly what is buffered right now (the whole-buffer case of receive_exactly)
                if not bs.buffer:
                    continue
                op = ["exactly", len(bs.buffer), allow]
            if op[0] == "receive":
                coro = bs.receive(op[1])
            elif op[0] == "exactly":
                coro = bs.receive_exactly(op[1])
            else:
                coro = bs.receive_until(unhx(op[1]), op[2])
            task = asyncio.ensure_future(coro)
            outcome: Any = None
            for _ in range(200):
                await asyncio.sleep(0)
                if task.done():
                    break
                if src.pending:
                    if allow > 0 and left:
                        allow -= 1
                        c = left.pop(0)
                        entered += c
                        src.pending.pop(0).set_result(c)
                    else:
                        task.cancel()  # interrupted while waiting for the wrapped stream
                        src.pending.clear()
            try:
                outcome = ("ret", await task)
            except asyncio.CancelledError:
                outcome = ("cancelled",)
            except BaseException as e:  # noqa: BLE001
                outcome = ("exc", exc_name(e))
            k = "iseq:" + op[0] + ":" + outcome[0]
            stats.setdefault("ops", {})[k] = stats.setdefault("ops", {}).get(k, 0) + 1
            rest = bytes(entered[handed:])
            if outcome[0] == "ret":
                got = outcome[1]
                if op[0] == "until":
                    d = unhx(op[1])
                    if d in got:
                        return f"first-occurrence: receive_until({d!r}) returned {got!r}, which contains the delimiter"
                    if rest[: len(got) + len(d)] != got + d:
                        return (f"conservation: receive_until({d!r}) returned {got!r} but the stream continues "
                                f"with {rest[:len(got) + len(d) + 4]!r}")
                    handed += len(got) + len(d)
                else:
                    n = op[1]
                    if op[0] == "exactly" and len(got) != n:
                        return f"exactly: receive_exactly({n}) returned {len(got)} bytes"
                    if op[0] == "receive" and not 1 <= len(got) <= n:
                        return f"receive: receive({n}) returned {len(got)} bytes"
                    if rest[: len(got)] != got:
                        return (f"conservation: {op[0]}({n}) returned {got!r} but the stream continues with "
                                f"{rest[:len(got) + 4]!r}")
                    handed += len(got)
            elif outcome[0] == "exc" and op[0] == "until" and outcome[1] == "notfound":
                d = unhx(op[1])
                if d in rest[: op[2] + len(d)]:
                    return (f"first-occurrence: receive_until({d!r}, {op[2]}) raised DelimiterNotFound although "
                            f"the delimiter is within the limit in {rest[:op[2] + len(d)]!r}")
            # an interrupted or failed call consumes nothing: what is buffered is still the next bytes
            if bytes(bs.buffer) != bytes(entered[handed:]):
                return (f"conservation: after {op[:-1]} -> {outcome[0]} the buffer holds {bytes(bs.buffer)!r}, "
                        f"the unread part of the stream is {bytes(entered[handed:])!r}")
        return None

    loop = asyncio.new_event_loop()
    try:
        return loop.run_until_complete(main())
    finally:
        loop.close()


def gen_iseq(rng: random.Random, count: int):
    for _ in range(count):
        alpha = b"ab|"
        chunks = [bytes(rng.choice(alpha) for _ in range(rng.randint(1, 5))) for _ in range(rng.randint(2, 6))]
        ops: list[list] = []
        if rng.random() < 0.3:
            # a search interrupted with bytes buffered, the buffer taken as a whole, new bytes arriving
            # without a search, then the same search again
            d = rng.choice([b"|", b"ab", b"|a|"])
            ops += [["until", hx(d), rng.randint(4, 12), rng.choice([1, 1, 2])], ["exactly_all", 0]]
            if rng.random() < 0.6:
                ops.append(["feed", hx(bytes(rng.choice(alpha) for _ in range(rng.randint(0, 2))) + d
                                       + bytes(rng.choice(alpha) for _ in range(rng.randint(0, 3))))])
            else:
                ops.append(["receive", 1, 1])
            ops.append(["until", hx(d), rng.randint(4, 12), rng.choice([0, 1, 2])])
        for _ in range(rng.randint(3, 8)):
            r = rng.random()
            allow = rng.choice([0, 0, 1, 1, 2, 3])
            if r < 0.2:
                ops.append(["feed", hx(bytes(rng.choice(alpha) for _ in range(rng.randint(1, 4))))])
            elif r < 0.45:
                ops.append(["receive", rng.randint(1, 6), allow])
            elif r < 0.7:
                ops.append(["exactly", rng.randint(1, 6), allow])
            else:
                ops.append(["until", hx(rng.choice([b"|", b"a", b"ab", b"|a|"])), rng.randint(2, 12), allow])
        yield {"t": "iseq", "chunks": [hx(c) for c in chunks], "ops": ops}


def gen_extra(rng: random.Random, count: int):
    for _ in range(count):
        if rng.random() < 0.5:
            enc = rng.choice(MODEL_ENCODINGS + ORACLE_ONLY_ENCODINGS)
            items = [rand_text(rng, enc, 0, 3) for _ in range(rng.randint(2, 5))]
            bad = "\u0100" if enc == "latin-1" else "\ud800"
            for _k in range(rng.randint(1, 2)):
                j = rng.randrange(len(items))
                items[j] = items[j] + bad if rng.random() < 0.5 else bad
            if enc == "utf-8-sig" and bad in items[0]:
                # CPython's utf-8-sig incremental encoder forgets to write its BOM if the very first
                # encode() raises (it clears `first` before encoding): a codec quirk, not AnyIO's
                items.insert(0, "a")
            total = sum(len(s.encode(enc, "ignore")) for s in items) + 4
            cuts = sorted(rng.sample(range(1, total), rng.randint(0, min(4, total - 1))))
            yield {"t": "rterr", "enc": enc, "items": items, "cuts": cuts}
        else:
            chunk = rand_bytes(rng, 1, 8)
            fed = rand_bytes(rng, 1, 4)
            r = rng.random()
            if r < 0.5:
                call: list = ["receive", rng.randint(1, 6)]
            elif r < 0.75:
                call = ["exactly", rng.randint(1, 6)]
            else:
                call = ["until", hx(rng.choice([b"|", b"a", b"ab"])), rng.randint(1, 12)]
            yield {"t": "cfeed", "chunk": hx(chunk), "fed": hx(fed), "call": call}


def gen_text(rng: random.Random, count: int, exhaustive_splits: bool):
    encs = MODEL_ENCODINGS + ORACLE_ONLY_ENCODINGS
    for i in range(count):
        enc = encs[i % len(encs)]
        if rng.random() < 0.5:
            s = rand_text(rng, enc, 0, 4)
            whole = s.encode(enc)
            n = len(whole)
            if n >= 2 and (exhaustive_splits or rng.random() < 0.3):
                # every split point, and every pair of split points (also inside a character)
                for a in range(1, n):
                    yield {"t": "recv", "enc": enc, "chunks": [hx(whole[:a]), hx(whole[a:])]}
                pairs = [(a, b) for a in range(1, n) for b in range(a + 1, n)]
                if not exhaustive_splits and len(pairs) > 12:
                    pairs = rng.sample(pairs, 12)
                for a, b in pairs:
                    yield {"t": "recv", "enc": enc, "chunks": [hx(whole[:a]), hx(whole[a:b]), hx(whole[b:])]}
                yield {"t": "recv", "enc": enc, "chunks": [hx(whole[j:j + 1]) for j in range(n)]}
            else:
                k = rng.randint(0, min(5, max(n - 1, 0)))
                cuts = tuple(sorted(rng.sample(range(1, n), k))) if n > 1 else ()
                chunks = cut(whole, cuts)
                if chunks and rng.random() < 0.2:
                    chunks.insert(rng.randint(0, len(chunks)), b"")
                yield {"t": "recv", "enc": enc, "chunks": [hx(c) for c in chunks]}
        else:
            items = [rand_text(rng, enc, 0, 3) for _ in range(rng.randint(0, 4))]
            if enc == "latin-1" and items and rng.random() < 0.1:
                items[rng.randrange(len(items))] += "\u0100"  # UnicodeEncodeError
            total = sum(len(s.encode(enc, "ignore")) for s in items) + 4
            k = rng.randint(0, min(6, total - 1))
            cuts = sorted(rng.sample(range(1, total), k))
            if rng.random() < 0.15:
                cuts = list(range(1, total))  # one byte at a time
            yield {"t": "rt", "enc": enc, "items": items, "cuts": cuts}


# --------------------------------------------------------------------------- run


def run_cases(cases: list[dict], res: Result) -> None:
    buf_cases = [c for c in cases if c["t"] == "buf"]
    txt_cases = [c for c in cases if c["t"] in ("recv", "rt")]
    for case in cases:
        if case["t"] in ("rterr", "cfeed", "iseq"):
            res.evaluations += 1
            try:
                bad = (run_rt_err(case, res.stats) if case["t"] == "rterr" else
                       run_cfeed(case, res.stats) if case["t"] == "cfeed" else run_iseq(case, res.stats))
            except Exception as e:  # noqa: BLE001
                bad = f"crash: {type(e).__name__}: {e}"
            if bad:
                res.violations.append(Violation(case, bad, "C16:" + bad.split(":")[0]))
            res.nontrivial.add(hash(json.dumps(case, sort_keys=True)))
    # buffered
    impl = []
    for case in buf_cases:
        try:
            impl.append(run_buf(case, res.stats))
        except Exception as e:  # noqa: BLE001  harness problem or a crash of the real code
            impl.append((f"crash {type(e).__name__}: {e}", f"crash: {type(e).__name__}: {e}", False))
    replies = run_model("buffered", [buf_line(c) for c in buf_cases])
    for case, (obs, bad, nontrivial), rep in zip(buf_cases, impl, replies):
        res.evaluations += 1
        if bad:
            res.violations.append(Violation(case, bad, "C16:" + bad.split(":")[0]))
        if obs != rep:
            res.disagreements.append(Disagreement(case, f"impl  {obs}\nmodel {rep}"))
        else:
            res.traces_validated += 1
        if nontrivial:
            res.nontrivial.add(hash(json.dumps(case, sort_keys=True)))
            if len(res.samples) < 3:
                res.samples.append({"case": case, "impl": obs})
    # text
    reqs_all: list[str] = []
    per_case = []
    for case in txt_cases:
        try:
            reqs, obs, bad, nontrivial = run_text(case, res.stats)
        except Exception as e:  # noqa: BLE001
            reqs, obs, bad, nontrivial = [], [], f"crash: {type(e).__name__}: {e}", False
        per_case.append((case, len(reqs), obs, bad, nontrivial))
        reqs_all += reqs
    replies = run_model("text", reqs_all)
    pos = 0
    nsamp = 0
    for case, n, obs, bad, nontrivial in per_case:
        rep = replies[pos: pos + n]
        pos += n
        res.evaluations += 1
        if bad:
            res.violations.append(Violation(case, bad, "C16:" + bad.split(":")[0]))
        if obs != rep:
            res.disagreements.append(Disagreement(case, f"impl  {obs}\nmodel {rep}"))
        elif n:
            res.traces_validated += 1
        else:
            res.stats["text_oracle_only_cases"] = res.stats.get("text_oracle_only_cases", 0) + 1
        if nontrivial:
            res.nontrivial.add(hash(json.dumps(case, sort_keys=True)))
            if nsamp < 2 and len(res.samples) < 6 and n:
                nsamp += 1
                res.samples.append({"case": case, "impl": obs})


def batches(it, size: int):
    buf = []
    for x in it:
        buf.append(x)
        if len(buf) >= size:
            yield buf
            buf = []
    if buf:
        yield buf


def run(ctx: Ctx) -> Result:
    res = Result(rule="buffered: every byte string over {a,b,|} up to a bound x every chunking x "
                      "both wrapped-stream kinds (quick: a deterministic subsample) with random call "
                      "sequences (receive/receive_exactly/receive_until/feed_data/aclose), a sweep of "
                      "all single calls with all small n / delimiters / max_bytes, random longer "
                      "inputs; text: code-point mixes x 9 encodings x all split points, and "
                      "send->re-chunk->receive round trips. Non-trivial = some call needed >= 2 "
                      "receives of the wrapped stream, left bytes in the buffer, raised "
                      "IncompleteRead/DelimiterNotFound; text: a receive needed >= 2 chunks (split "
                      "inside a character / BOM) or a BOM codec with several sends")
    rng = ctx.rng
    quick = ctx.tier == "quick"
    b = ctx.budget
    streams = [iter(load_corpus("C16"))]
    if quick:
        streams += [
            gen_small_scope(rng, 6, min(1.0, 0.35 * b), 1, 3),
            gen_single_call_sweep(rng, 3, min(1.0, 0.3 * b)),
            gen_random_long(rng, ctx.n(3000, 0)),
            gen_text(rng, ctx.n(1500, 0), False),
            gen_extra(rng, ctx.n(600, 0)),
            gen_iseq(rng, ctx.n(1500, 0)),
        ]
    else:
        streams += [
            gen_small_scope(rng, 6, 1.0, max(1, int(3 * b)), 4),
            gen_small_scope(rng, 8, min(1.0, 0.03 * b), 1, 4),
            gen_single_call_sweep(rng, 4, min(1.0, 1.0 * b)),
            gen_random_long(rng, ctx.n(0, 60000)),
            gen_text(rng, ctx.n(0, 25000), True),
            gen_extra(rng, ctx.n(0, 6000)),
            gen_iseq(rng, ctx.n(0, 20000)),
        ]
        res.exhaustive = b >= 1.0
        res.stats["enumerated_small_scope"] = "all strings<=6 x chunkings x kinds"
    for batch in batches(itertools.chain(*streams), 20000):
        run_cases(batch, res)
        if ctx.time_left() < 10:
            res.stats["stopped_early"] = True
            res.exhaustive = False
            break
    return res


def replay(ctx: Ctx, case: Any) -> Result:
    res = Result(rule="replay")
    run_cases([case], res)
    return res


if __name__ == "__main__":
    import sys
    from .common import check_main

    sys.exit(check_main(
        "C16", run, replay=replay, models=["buffered", "text"],
        technique_note="Lean 4 theorems over the pure models of BufferedByteReceiveStream (all byte "
                       "lists, chunkings, environment choices, call sequences) and of the text "
                       "streams over abstract incremental codecs + Lean core's UTF-8; whole-case "
                       "comparison of the real classes with the compiled models + oracle from the "
                       "property text",
        assumptions=["wrapped streams behave like the in-memory fakes: a ByteReceiveStream returns "
                     "1..max_bytes bytes, no empty chunks (cases with empty chunks are compared with "
                     "the model but the 1..n rule is not demanded of them)",
                     "CPython's incremental decoders are folds over bytes (sampled on every text "
                     "case: stats.fold_law_checked)"]))
