"""C20 async lru_cache: correspondence (trace validation against lean model `lru`) + oracle.

Real code: `anyio.functools.lru_cache` wrapped around a harness coroutine that suspends on a
per-execution gate (an `asyncio.Future`) which controller ops resolve, so the harness decides
the order in which executions finish, fail or are cancelled.

A case is `{"cfg": {"maxsize", "typed", "ttl", "ac"}, "scripts": [[op, ...], ...]}`; ops:

  ["call", a] (+ "pre")   await f(*ARGS[a])           (a = index into ARGS, see `canon`)
  ["yield"]               await asyncio.sleep(0)
  ["cancel", j] / ["ncancel", j]     cancel scope / native cancel of task j's current call
  ["finish", j] / ["fail", j]        resolve the gate of the execution running in task j
  ["finishn", i] / ["failn", i] / ["canceln", i] / ["ncanceln", i]
                          same, on the i-th (mod n) pending gate / active call
  ["tick", n]             advance the virtual clock by n seconds
  ["drain"]               finish every pending execution until all other tasks are done
"""

from __future__ import annotations

import asyncio
import itertools
import random
from typing import Any

from anyio import CancelScope
from anyio.functools import lru_cache

from .bench import Adapter, Bench
from .common import Ctx, Disagreement, Result, Violation, load_corpus, run_model

# argument tuples; 1 == 1.0 and hash(1) == hash(1.0), so they are equal arguments unless typed
ARGS: list[tuple[tuple, dict]] = [
    ((1,), {}), ((2,), {}), ((3,), {}), ((1.0,), {}), ((2.0,), {}), ((), {"x": 1}),
    ((), {"x": 1.0}), ((), {"x": True}),
]


def canon(a: int, typed: bool) -> int:
    """canonical key of ARGS[a]: equal arguments <-> equal canonical key"""
    if not typed and a in (3, 4):
        return a - 3
    if not typed and a in (6, 7):  # x=1.0 and x=True are equal to x=1 unless typed
        return 5
    return a


class WrappedError(Exception):
    pass


# --------------------------------------------------------------------------- adapter / bench


class LruAdapter(Adapter):
    model = "lru"

    def new_line(self, cfg: Any) -> str:
        m, t = cfg.get("maxsize"), cfg.get("ttl")
        return f"new {'-' if m is None else m} {'-' if t is None else t} {int(bool(cfg.get('ac')))}"

    def setup(self, cfg: Any, bench: "LruBench") -> None:  # type: ignore[override]
        self.bench = bench
        self.typed = bool(cfg.get("typed"))

        @lru_cache(maxsize=cfg.get("maxsize"), typed=self.typed, ttl=cfg.get("ttl"),
                   always_checkpoint=bool(cfg.get("ac")))
        async def f(x: Any) -> Any:
            return await bench.wrapped(x)

        self.f = f

    def fmt(self, t: int, op: list, pre: bool) -> str:
        return f"call {t} {canon(op[1], self.typed)} {int(pre)}"

    def call(self, t: int, op: list) -> Any:
        args, kw = ARGS[op[1]]
        return self.f(*args, **kw)

    def ok(self, t: int, op: list, value: Any) -> str:
        if isinstance(value, tuple) and len(value) == 2 and value[0] == "R":
            return f"ret {value[1]}"
        return f"ret ?{value!r}"

    def exc(self, t: int, op: list, e: BaseException) -> str:
        if isinstance(e, WrappedError):
            return "raised"
        if isinstance(e, asyncio.CancelledError):
            return "cancelled"
        return "exc:" + type(e).__name__

    def obs(self) -> str:
        ci = self.f.cache_info()
        return f"hits={ci.hits} misses={ci.misses} currsize={ci.currsize}"

    def peek(self) -> tuple[int, int] | None:
        """(completed, total) entries of the private per-loop dict; None if its shape is not the
        anchored one (then only the public observables are used)."""
        try:
            from anyio.functools import lru_cache_items

            d = lru_cache_items.get().get(self.f)
            if d is None:
                return (0, 0)
            done = sum(1 for e in d.values() if e[1] is None)
            return (done, len(d))
        except Exception:
            return None


class LruBench(Bench):
    """Bench with a gated wrapped function, controller ops and a per-segment history."""

    def __init__(self, case: dict):
        super().__init__(LruAdapter(), case)
        self.ad: LruAdapter = self.adapter  # type: ignore[assignment]
        self.gate: list[asyncio.Future | None] = [None] * self.n
        self.exec_of: list[int | None] = [None] * self.n
        self.nexec = 0
        self.cur_key: list[int | None] = [None] * self.n
        self.finished = [False] * self.n
        self.hist: list[tuple] = []
        self.running: int | None = None

    # ---- the wrapped function (runs inside the caller's task)
    async def wrapped(self, x: Any) -> Any:
        task = asyncio.current_task()
        t = self.index[id(task)]
        self.nexec += 1
        n = self.nexec
        loop = asyncio.get_running_loop()
        g = loop.create_future()
        self.gate[t] = g
        self.exec_of[t] = n
        self.hist.append(("xstart", t, self.cur_key[t], n))
        try:
            await g
        except asyncio.CancelledError:
            self.hist.append(("xend", t, self.cur_key[t], n, "cancel", loop.time()))
            raise
        except WrappedError:
            self.hist.append(("xend", t, self.cur_key[t], n, "raise", loop.time()))
            raise
        finally:
            self.gate[t] = None
            self.exec_of[t] = None
        self.hist.append(("xend", t, self.cur_key[t], n, "ret", loop.time()))
        return ("R", n)

    # ---- loop hooks
    def on_handle(self, kind: str, who: Any, handle: Any) -> None:
        self.running = None
        if kind in ("step", "wakeup") and isinstance(who, asyncio.Task):
            t = self.index.get(id(who))
            self.running = t
            if t is not None and self.in_op[t]:
                g = self.gate[t]
                if g is not None and g.done() and not g.cancelled() and not who._must_cancel:  # type: ignore[attr-defined]
                    if g.exception() is None:
                        req = f"wret {t} {self.exec_of[t]}"
                    else:
                        req = f"wraise {t}"
                else:
                    req = f"step {t}"
                self.open[t] = self.emit(req, None)
                self.fc_seen[t] = False
                self.mc_seen[t] = False

    def status(self) -> list[tuple[int, int, str]]:
        out = []
        for t, task in enumerate(self.tasks):
            if task is None or not self.in_op[t] or task.done():
                continue
            w = task._fut_waiter  # type: ignore[attr-defined]
            if self.gate[t] is not None:
                st = "exec"
            elif w is None or w.done():
                st = "runnable"
            else:
                st = "blocked"
            out.append((t, self.cur_key[t], st))
        return out

    def after_handle(self, kind: str, who: Any, handle: Any) -> None:
        for t in range(self.n):
            if self.open[t] is not None:
                self.set_outcome(t, "susp")
        self.scan()
        if self.dirty:
            self.emit("obs", self.ad.obs())
            self.dirty = False
        t = self.running
        self.info(t if t is not None and self.in_op[t] else None)
        self.hist.append(("status", self.status()))
        self.running = None

    def info(self, t: int | None) -> None:
        """sample the public counters; whatever moved since the last sample is attributed to
        the call task `t` is inside of"""
        ci = self.ad.f.cache_info()
        self.hist.append(("info", t, None if t is None else self.cur_key[t], ci.hits, ci.misses,
                          ci.currsize, self.ad.peek()))

    # ---- controller helpers
    def pending_gates(self) -> list[int]:
        order = [(self.exec_of[t], t) for t in range(self.n)
                 if self.gate[t] is not None and not self.gate[t].done()]  # type: ignore[union-attr]
        return [t for _, t in sorted(order)]

    def active_calls(self, me: int) -> list[int]:
        return [t for t in range(self.n) if t != me and self.in_op[t]]

    def resolve(self, j: int, fail: bool) -> None:
        g = self.gate[j] if 0 <= j < self.n else None
        if g is not None and not g.done():
            if fail:
                g.set_exception(WrappedError())
            else:
                g.set_result(None)

    def do_cancel(self, me: int, j: int, native: bool) -> None:
        if not (0 <= j < self.n) or j == me or not self.in_op[j]:
            return
        tj = self.tasks[j]
        if native:
            if tj is not None and not tj.done():
                self.note_cancel(j)
                tj.cancel()
                self.scan()
        else:
            sc = self.scope[j]
            if sc is not None:
                self.note_cancel(j)
                self.emit(f"sc {j}", "env")
                sc.cancel()
                self.scan()

    def note_cancel(self, j: int) -> None:
        super().note_cancel(j)
        self.hist.append(("cancel", j))

    # ---- the tasks
    async def task_main(self, t: int) -> None:
        me = asyncio.current_task()
        assert me is not None
        self.tasks[t] = me
        self.index[id(me)] = t
        loop = asyncio.get_running_loop()
        try:
            for op in self.case["scripts"][t]:
                kind = op[0]
                if kind == "yield":
                    await asyncio.sleep(0)
                elif kind in ("cancel", "ncancel"):
                    self.do_cancel(t, op[1], kind == "ncancel")
                elif kind in ("canceln", "ncanceln"):
                    act = self.active_calls(t)
                    if act:
                        self.do_cancel(t, act[op[1] % len(act)], kind == "ncanceln")
                elif kind in ("finish", "fail"):
                    self.resolve(op[1], kind == "fail")
                elif kind in ("finishn", "failn"):
                    pg = self.pending_gates()
                    if pg:
                        self.resolve(pg[op[1] % len(pg)], kind == "failn")
                elif kind == "tick":
                    loop._vtime += op[1]  # type: ignore[attr-defined]
                    self.emit(f"tick {op[1]}", "env")
                    self.hist.append(("tick", op[1]))
                elif kind == "drain":
                    idle = 0
                    for _ in range(400):
                        if all(self.finished[j] for j in range(self.n) if j != t):
                            break
                        pg = self.pending_gates()
                        idle = 0 if pg else idle + 1
                        if idle > 12:
                            break
                        for j in pg:
                            self.resolve(j, False)
                        await asyncio.sleep(0)
                elif kind == "call":
                    await self.do_call(t, op, me)
                else:
                    raise ValueError(op)
        finally:
            self.finished[t] = True

    async def do_call(self, t: int, op: list, me: asyncio.Task) -> None:
        pre = op[-1] == "pre"
        core = op[:-1] if pre else op
        loop = asyncio.get_running_loop()
        key = canon(core[1], self.ad.typed)
        try:
            with CancelScope() as sc:
                self.scope[t] = sc
                if pre:
                    sc.cancel()
                self.cur_key[t] = key
                self.info(None)
                self.open[t] = self.emit(self.adapter.fmt(t, core, pre), None)
                self.hist.append(("call", t, key, loop.time(), pre))
                self.fc_seen[t] = self.mc_seen[t] = False
                self.in_op[t] = True
                out = "?"
                try:
                    r = await self.adapter.call(t, core)
                    out = self.adapter.ok(t, core, r)
                except BaseException as e:
                    out = self.adapter.exc(t, core, e)
                    raise
                finally:
                    self.info(t)
                    self.in_op[t] = False
                    self.set_outcome(t, out)
                    self.hist.append(("op", t, key, out))
        except asyncio.CancelledError:
            me.uncancel()
        except Exception:
            pass
        finally:
            self.scope[t] = None


def strip_obs(reply: str) -> str:
    """model `obs` replies carry retained=/order= (not observable through public API)"""
    if reply.startswith("hits="):
        return " ".join(reply.split()[:3])
    return reply


def compare(lines: list[list[str]], replies: list[str]) -> tuple[int, str] | None:
    for i, ((req, exp), got) in enumerate(zip(lines, replies)):
        if exp != strip_obs(got):
            return i, f"line {i}: request {req!r}: implementation {exp!r}, model {got!r}"
    return None


# --------------------------------------------------------------------------- oracle


def oracle(b: LruBench, model_obs: list[str] | None = None) -> tuple[list[tuple[str, str]], dict]:
    """The property, checked on the real code's history.  Keeps a *reference* LRU of completed
    results (what the statement says must be retained): a successful execution stores its result
    as most recently used and evicts the least recently used one beyond maxsize; a reuse makes
    the key most recently used; a call at or after a result's expiry drops it.

    Returns (violations as (signature, text), stats).  `model_obs`, if given, is the model's
    `obs` reply after each segment that produced one, used for a cross-check reference-vs-model.
    """
    cfg = b.case["cfg"]
    maxsize, ttl = cfg.get("maxsize"), cfg.get("ttl")
    cached = maxsize != 0
    bad: list[tuple[str, str]] = []
    stats = {"evictions": 0, "expiries": 0, "hits": 0, "waits": 0, "execs": 0, "fails": 0,
             "xcancels": 0, "retries_seen": 0}

    def fail(sig: str, text: str) -> None:
        if all(sg != sig for sg, _ in bad):  # first failure of each kind
            bad.append((sig, text))

    ref: dict[int, tuple[int, float | None]] = {}  # key -> (value, expiry), oldest first
    exec_key: dict[int, int] = {}
    exec_ok: set[int] = set()
    inflight: dict[int, int] = {}
    own: dict[int, list] = {}  # task -> [n, how] of its own execution in the current call
    expect: dict[int, int] = {}  # task -> value it was promised by a hit
    cancelled_calls: set[int] = set()
    active: dict[int, int] = {}  # task -> key
    pending: tuple[int, int, bool] | None = None  # call begun, first sample not yet seen
    prev = (0, 0, 0)
    for ev in b.hist:
        kind = ev[0]
        if kind == "call":
            _, t, k, now, pre = ev
            active[t] = k
            own.pop(t, None)
            expect.pop(t, None)
            cancelled_calls.discard(t)
            if pre:
                cancelled_calls.add(t)
            if k in ref and ref[k][1] is not None and now >= ref[k][1]:
                del ref[k]
                stats["expiries"] += 1
            pending = (t, k, k in ref)
        elif kind == "cancel":
            cancelled_calls.add(ev[1])
        elif kind == "xstart":
            _, t, k, n = ev
            stats["execs"] += 1
            exec_key[n] = k
            if cached and inflight.get(k, 0) > 0:
                fail("C20:single-flight", f"wrapped function started for key {k} by task {t} while "
                                          f"another execution for the same key is in flight")
            inflight[k] = inflight.get(k, 0) + 1
            if t in own:
                fail("C20:value", f"task {t} executed the wrapped function twice in one call")
            own[t] = [n, None]
        elif kind == "xend":
            _, t, k, n, how, now = ev
            inflight[k] -= 1
            if t in own:
                own[t][1] = how
            if how == "ret":
                exec_ok.add(n)
                if cached:
                    ref.pop(k, None)
                    ref[k] = (n, None if ttl is None else now + ttl)
                    if maxsize is not None and len(ref) > maxsize:
                        old = next(iter(ref))
                        del ref[old]
                        stats["evictions"] += 1
            elif how == "raise":
                stats["fails"] += 1
            else:
                stats["xcancels"] += 1
        elif kind == "op":
            _, t, k, out = ev
            active.pop(t, None)
            mine = own.get(t)
            if out.startswith("ret "):
                tok = out[4:]
                n = int(tok) if tok.isdigit() else -1
                if exec_key.get(n) != k or n not in exec_ok:
                    fail("C20:value", f"call for key {k} returned {tok}, which no execution for an "
                                      f"equal key returned")
                elif mine is not None:
                    if mine[1] != "ret" or mine[0] != n:
                        fail("C20:value", f"task {t}'s own execution {mine} but the call returned {n}")
                elif t not in expect:
                    fail("C20:value", f"call for key {k} returned {n} without executing the wrapped "
                                      f"function and without a cache hit")
                elif expect[t] != n:
                    fail("C20:stale", f"call for key {k} returned {n} but the retained result at the "
                                      f"time of the hit was {expect[t]}")
            elif out == "raised":
                if mine is None or mine[1] != "raise":
                    fail("C20:exceptions", f"task {t} saw the wrapped function's exception but its own "
                                           f"execution did not raise ({mine})")
            elif out == "cancelled":
                if t not in cancelled_calls:
                    fail("C20:exceptions", f"task {t}'s call was cancelled although nobody cancelled it")
            else:
                fail("C20:internal-error", f"call for key {k} by task {t} ended with {out}")
            if mine is not None and mine[1] == "raise" and out != "raised" and t not in cancelled_calls:
                fail("C20:exceptions", f"task {t}'s execution raised but its call ended with {out}")
        elif kind == "info":
            _, t, k, hits, misses, currsize, peek = ev
            dh = hits - prev[0]
            prev = (hits, misses, currsize)
            if dh not in (0, 1):
                fail("C20:accounting", f"hits moved by {dh} within one call segment")
            elif dh == 1:
                stats["hits"] += 1
                if k is None:
                    fail("C20:accounting", "hit counted while no call was running")
                elif k not in ref:
                    fail("C20:stale", f"cache hit for key {k} although no result for it is retained "
                                      f"(evicted, expired or never computed): retained {list(ref)}")
                else:
                    v = ref.pop(k)
                    ref[k] = v
                    expect[t] = v[0]
            if pending is not None and t == pending[0]:
                if cached and pending[2] and dh == 0:
                    fail("C20:lru", f"call for key {pending[1]} did not reuse the retained, unexpired "
                                    f"result (wrong entry evicted or result dropped)")
                pending = None
            # bounded retention and its accounting
            if maxsize is not None and currsize > maxsize:
                fail("C20:bound", f"cache_info().currsize={currsize} exceeds maxsize={maxsize}")
            if peek is not None:
                done, _total = peek
                if maxsize is not None and done > maxsize:
                    fail("C20:bound", f"{done} completed results retained, maxsize={maxsize}")
                if done != currsize:
                    fail("C20:accounting", f"currsize={currsize} but {done} completed results are retained")
            if currsize != len(ref):
                fail("C20:accounting", f"currsize={currsize} but the results that must be retained are "
                                       f"{list(ref)}")
        elif kind == "status":
            # calls for different keys must not block each other: whenever a call is blocked on
            # a future, some call for the SAME key must be executing or about to run
            by_key: dict[int, list[str]] = {}
            for (tt, kk, st) in ev[1]:
                by_key.setdefault(kk, []).append(st)
            for kk, sts in by_key.items():
                if "blocked" in sts:
                    stats["waits"] += 1
                    if "exec" not in sts and "runnable" not in sts:
                        fail("C20:blocked", f"call(s) for key {kk} blocked although no call for that key "
                                            f"is executing or runnable")
        elif kind == "tick":
            pass
    if b.deadlock:
        left = [(t, k) for t, k in active.items()]
        if left:
            fail("C20:blocked", f"calls {left} never finished although every execution was completed")
    # cross-check: model's completed-key order vs the reference LRU at the end
    if model_obs:
        last = model_obs[-1]
        f = dict(kv.split("=") for kv in last.split())
        order = [] if f.get("order", "-") == "-" else [int(x) for x in f["order"].split(",")]
        if cached and order != list(ref):
            fail("MODEL:order", f"model's retained order {order} differs from the reference LRU {list(ref)}")
    return bad, stats


# --------------------------------------------------------------------------- generators


def gen_case(rng: random.Random, max_callers: int) -> dict:
    typed = rng.random() < 0.4
    cfg = {
        "maxsize": rng.choice([None, 0, 1, 1, 1, 2, 2, 2, 3]),
        "typed": typed,
        "ttl": rng.choice([None, None, None, 0, 1, 2, 3]),
        "ac": rng.random() < 0.4,
    }
    # at most three distinct canonical keys
    pool: list[int] = []
    for a in rng.sample(range(len(ARGS)), len(ARGS)):
        if len({canon(x, typed) for x in pool + [a]}) <= 3:
            pool.append(a)
    pool = pool[: rng.randint(2, len(pool))]
    nc = rng.randint(2, max_callers)
    scripts: list[list[list]] = []
    for _ in range(nc):
        ops: list[list] = []
        for _ in range(rng.randint(0, 2)):
            ops.append(["yield"])
        for _ in range(rng.randint(1, 3)):
            op: list = ["call", rng.choice(pool)]
            if rng.random() < 0.05:
                op.append("pre")
            ops.append(op)
            if rng.random() < 0.3:
                ops.append(["yield"])
        scripts.append(ops)
    ctrl: list[list] = []
    for _ in range(rng.randint(3, 14)):
        r = rng.random()
        if r < 0.30:
            ctrl.append(["yield"])
        elif r < 0.55:
            ctrl.append(["finishn", rng.randint(0, 5)])
        elif r < 0.67:
            ctrl.append(["failn", rng.randint(0, 5)])
        elif r < 0.77:
            ctrl.append(["canceln", rng.randint(0, 5)])
        elif r < 0.85:
            ctrl.append(["ncanceln", rng.randint(0, 5)])
        elif r < 0.93 and cfg["ttl"] is not None:
            ctrl.append(["tick", rng.randint(1, 3)])
        else:
            ctrl.append(["finish", rng.randrange(nc)])
    ctrl.append(["drain"])
    scripts.append(ctrl)
    return {"cfg": cfg, "scripts": scripts}


def enum_cases():
    """small scope, exhaustively (thorough tier): three callers over two or three keys with a
    probe call each, every order of completion, each execution finishing or failing"""
    keysets = [ks for ks in itertools.product(range(3), repeat=3) if ks[0] == 0 and ks[1] <= 1 or ks == (0, 1, 2)]
    for maxsize in (1, 2):
        for ac in (False, True):
            for ks in keysets:
                for perm in itertools.permutations(range(3)):
                    for fails in itertools.product((False, True), repeat=3):
                        if sum(fails) > 1:
                            continue
                        scripts = [[["yield"]] * i + [["call", ks[i]], ["call", ks[(i + 1) % 3]]]
                                   for i in range(3)]
                        ctrl: list[list] = [["yield"]] * 5
                        for j in perm:
                            ctrl.append(["fail" if fails[j] else "finish", j])
                            ctrl += [["yield"]] * 3
                        ctrl.append(["drain"])
                        yield {"cfg": {"maxsize": maxsize, "typed": False, "ttl": None, "ac": ac},
                               "scripts": scripts + [ctrl]}


# --------------------------------------------------------------------------- run


def nontrivial_key(b: LruBench, st: dict) -> tuple | None:
    reqs = [r for r, _ in b.lines]
    if (st["waits"] or st["evictions"] or st["expiries"] or st["fails"]
            or any(r.startswith(("fc", "mc")) for r in reqs)):
        return tuple((r, o) for r, o in b.lines if not r.startswith("obs"))
    return None


def run_cases(cases: list[dict], res: Result) -> None:
    benches: list[LruBench] = []
    all_lines: list[str] = []
    for case in cases:
        b = LruBench(case)
        b.run()
        benches.append(b)
        all_lines += [r for r, _ in b.lines]
    replies = run_model("lru", all_lines)
    pos = 0
    outc = res.stats.setdefault("outcomes", {})
    cfgs = res.stats.setdefault("configs", {})
    agg = res.stats.setdefault("oracle_events", {})
    for case, b in zip(cases, benches):
        rep = replies[pos: pos + len(b.lines)]
        pos += len(b.lines)
        res.evaluations += 1
        for r, o in b.lines:
            k = "obs" if r.startswith("obs") else r.split()[0] + ":" + o.split()[0]
            outc[k] = outc.get(k, 0) + 1
        c = case["cfg"]
        for k in (f"maxsize={c.get('maxsize')}", f"ttl={'set' if c.get('ttl') is not None else None}",
                  f"typed={bool(c.get('typed'))}", f"ac={bool(c.get('ac'))}"):
            cfgs[k] = cfgs.get(k, 0) + 1
        res.stats["deadlocks"] = res.stats.get("deadlocks", 0) + int(b.deadlock)
        if b.error:
            res.violations.append(Violation(case, b.error, "harness:" + b.error[:30]))
            continue
        model_obs = [g for (r, _), g in zip(b.lines, rep) if r == "obs"]
        d = compare(b.lines, rep)
        bad, st = oracle(b, None if d else model_obs)
        for k, v in st.items():
            agg[k] = agg.get(k, 0) + v
        tag = "@" + str(case["name"]).split(":")[0] if isinstance(case, dict) and case.get("name") else ""
        for sig, text in bad:
            sig, text = sig + tag, (tag[1:] + ": " if tag else "") + text
            if sig.startswith("MODEL:"):
                res.disagreements.append(Disagreement(case, text))
            else:
                res.violations.append(Violation(case, text, sig))
        if d:
            res.disagreements.append(Disagreement(case, d[1]))
        elif not any(s.startswith("MODEL:") for s, _ in bad):
            res.traces_validated += 1
        k = nontrivial_key(b, st)
        if k is not None:
            res.nontrivial.add(hash(k))
        if len(res.samples) < 4 and k is not None:
            res.samples.append({"case": case, "trace": [f"{r} -> {o}" for r, o in b.lines[:16]]})


def run_cache_clear_leg(res: Result, only: dict | None = None) -> None:
    """cache_clear() while calls are in flight or queued on a key's lock (oracle only; cache_clear is not
    part of the model): every caller still gets what the wrapped function returned for its arguments, no
    caller sees an internal error, and later calls are computed and served correctly.  The counters are
    not judged here (DESIGN section 4, observation O2)."""
    import anyio
    from anyio.functools import lru_cache

    for maxsize in (None, 1, 2):
        for ac in (False, True):
            for nwait in (0, 1, 2):
                case = {"cache_clear": {"maxsize": maxsize, "always_checkpoint": ac, "waiters": nwait}}
                if only is not None and only != case["cache_clear"]:
                    continue
                out: dict[str, Any] = {}

                async def main() -> None:
                    gate = anyio.Event()
                    calls: list[int] = []

                    @lru_cache(maxsize=maxsize, always_checkpoint=ac)
                    async def f(x: int) -> tuple:
                        calls.append(x)
                        if x == 1 and calls.count(1) == 1:
                            await gate.wait()
                        return ("v", x)

                    async def caller(tag: str, x: int) -> None:
                        try:
                            out[tag] = await f(x)
                        except BaseException as e:  # noqa: BLE001
                            out[tag] = f"raised {type(e).__name__}: {e}"
                            if not isinstance(e, Exception):
                                raise

                    with anyio.fail_after(10):
                        async with anyio.create_task_group() as tg:
                            tg.start_soon(caller, "first", 1)
                            for k in range(nwait):
                                tg.start_soon(caller, f"waiter{k}", 1)
                            tg.start_soon(caller, "other", 2)
                            await anyio.wait_all_tasks_blocked()
                            f.cache_clear()
                            gate.set()
                        out["again1"] = await f(1)
                        out["again2"] = await f(2)
                        out["third"] = await f(3)
                        out["again1b"] = await f(1)

                try:
                    anyio.run(main)
                except BaseException as e:  # noqa: BLE001
                    out["run"] = f"raised {type(e).__name__}: {e}"
                res.evaluations += 1
                res.stats["cache_clear_cases"] = res.stats.get("cache_clear_cases", 0) + 1
                want = {"first": ("v", 1), "other": ("v", 2), "again1": ("v", 1), "again2": ("v", 2),
                        "third": ("v", 3), "again1b": ("v", 1), **{f"waiter{k}": ("v", 1) for k in range(nwait)}}
                bad = {k: out.get(k, "nothing") for k in want if out.get(k) != want[k]}
                if bad or "run" in out:
                    res.violations.append(Violation(
                        case, f"cache_clear() with a call in flight (maxsize={maxsize}, always_checkpoint={ac}, "
                              f"{nwait} callers queued on the key): callers observed {bad or out.get('run')!r}",
                        "C20:cache-clear-inflight"))


def run(ctx: Ctx) -> Result:
    res = Result(rule="random scripts: 2..N caller tasks doing 1-3 calls over <=3 keys and a controller "
                      "task finishing / failing / cancelling executions in random order, ticking the "
                      "clock, then draining (maxsize None/0/1/2/3, typed, ttl, always_checkpoint); a "
                      "case is non-trivial if a call had to wait on a key's lock, a result was evicted "
                      "or expired, an execution failed, or a cancellation landed inside a call; "
                      "distinct = distinct event traces")
    cases = [c for c in load_corpus("C20")]
    n = ctx.n(6000, 120000)
    mc = 4 if ctx.tier == "quick" else 6
    cases += [gen_case(ctx.rng, mc) for _ in range(n)]
    if ctx.tier == "thorough" and ctx.budget == 1.0:
        cases += list(enum_cases())
        res.stats["enumerated_small_scope"] = True
    for i in range(0, len(cases), 250):
        run_cases(cases[i: i + 250], res)
        if ctx.time_left() < 0:
            break
    if ctx.focus is None:
        run_cache_clear_leg(res)
    return res


def replay(ctx: Ctx, case: Any) -> Result:
    res = Result(rule="replay")
    if isinstance(case, dict) and "cache_clear" in case:
        run_cache_clear_leg(res, only=case["cache_clear"])
    else:
        run_cases([case], res)
    return res


if __name__ == "__main__":
    import sys
    from .common import check_main

    sys.exit(check_main("C20", run, replay=replay, models=["lru"],
                        technique_note="Lean 4 theorems over the lru_cache LTS (all event lists) + trace "
                                       "validation of the real AsyncLRUCacheWrapper against the model + "
                                       "history oracle with a reference LRU"))
