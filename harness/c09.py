"""C09 Lock: correspondence (trace validation against lean model `lock`) + oracle."""

from __future__ import annotations

import itertools
import random
from typing import Any

import anyio

from .bench import Adapter, Bench, compare, prim
from .common import Ctx, Disagreement, Result, Violation, load_corpus, run_model


class LockAdapter(Adapter):
    model = "lock"

    def new_line(self, cfg: Any) -> str:
        return f"new {int(bool(cfg['fast']))}"

    def setup(self, cfg: Any, bench: Bench) -> None:
        self.bench = bench
        self.lock = prim("Lock", bool(cfg.get("adapter")), fast_acquire=bool(cfg["fast"]))

    def fmt(self, t: int, op: list, pre: bool) -> str:
        if op[0] == "acquire":
            return f"acquire {t} {int(pre)}"
        return f"{op[0]} {t}"

    def call(self, t: int, op: list) -> Any:
        if op[0] == "acquire":
            return self.lock.acquire()
        if op[0] == "acquire_nowait":
            return self.lock.acquire_nowait()
        if op[0] == "release":
            return self.lock.release()
        raise ValueError(op)

    def obs(self) -> str:
        st = self.lock.statistics()
        owner = "-" if st.owner is None else str(self.bench.index.get(st.owner.id, "?"))
        return f"locked={int(self.lock.locked())} owner={owner} waiters={st.tasks_waiting}"


# --------------------------------------------------------------------------- generator


def gen_case(rng: random.Random, max_tasks: int, max_ops: int) -> dict:
    n = rng.randint(2, max_tasks)
    scripts = []
    for t in range(n):
        ops: list[list] = []
        holding = False
        for _ in range(rng.randint(1, max_ops)):
            r = rng.random()
            others = [j for j in range(n) if j != t]
            if r < 0.30:
                if holding and rng.random() < 0.9:
                    ops.append(["release"])
                    holding = False
                else:
                    ops.append(["acquire"] + (["pre"] if rng.random() < 0.08 else []))
                    holding = True  # optimistic; cancellation may void it
            elif r < 0.40:
                ops.append(["acquire_nowait"])
            elif r < 0.55:
                ops.append(["release"])
                holding = False
            elif r < 0.75:
                ops.append(["yield"])
            elif r < 0.90:
                ops.append(["cancel", rng.choice(others)])
            else:
                ops.append(["ncancel", rng.choice(others)])
        if holding and rng.random() < 0.8:
            ops.append(["release"])
        scripts.append(ops)
    return {"cfg": {"fast": rng.random() < 0.4, "adapter": rng.random() < 0.25}, "scripts": scripts}


def enum_cases(max_len: int):
    """all scripts of <= max_len ops over 3 tasks drawn from a small op alphabet (thorough)"""
    alpha0 = [["acquire"], ["release"], ["yield"]]
    alpha1 = [["acquire"], ["release"], ["cancel", 0], ["ncancel", 0], ["yield"]]
    for fast in (False, True):
        for s0 in itertools.product(alpha0, repeat=2):
            for l1 in range(1, max_len + 1):
                for s1 in itertools.product(alpha1, repeat=l1):
                    for s2 in ([["acquire"], ["release"]], [["yield"], ["acquire"], ["release"]]):
                        yield {"cfg": {"fast": fast},
                               "scripts": [[list(o) for o in s0], [list(o) for o in s1], s2]}


# --------------------------------------------------------------------------- oracle


def oracle(b: Bench) -> str | None:
    """Checks the property on the real code's history (calls, completions, cancellations and
    public statistics in program order), independently of the Lean model."""
    holders: set[int] = set()
    fastpending: set[int] = set()  # on the uncontended path, still inside acquire
    waitlist: list[int] = []  # tasks that had to queue, in arrival order
    dead: set[int] = set()  # queued tasks on which a cancellation was issued
    last_obs = None
    for kind, t, op, out in b.events:
        if kind == "obs":
            last_obs = out
            f = dict(kv.split("=") for kv in out.split())
            if f["locked"] == "0" and f["waiters"] != "0":
                return f"free lock with waiting tasks: {out}"
            if int(f["waiters"]) > len(waitlist):
                return (f"the queue holds {f['waiters']} entries but only {len(waitlist)} acquire calls are "
                        f"still waiting: entries of cancelled waiters were left behind")
            if len(holders) == 1 and f["owner"] != str(next(iter(holders))):
                return f"task {next(iter(holders))} is in its critical section but owner is {f['owner']}"
        elif kind == "cancel":
            if t in waitlist:
                dead.add(t)
        elif kind == "call":
            if op[0] == "acquire":
                if holders or fastpending or waitlist:
                    waitlist.append(t)
                    if out == "pre":  # entered in a cancelled scope: will be cancelled
                        dead.add(t)
                elif out != "pre":
                    fastpending.add(t)
        else:
            name = op[0]
            if name in ("acquire", "acquire_nowait") and out == "ret":
                if t in holders:
                    return f"acquire returned to task {t} which already holds the lock"
                if holders:
                    return f"mutual exclusion broken: {t} acquired while {sorted(holders)} hold"
                if t in waitlist:
                    ahead = [u for u in waitlist[: waitlist.index(t)] if u not in dead]
                    if ahead:
                        return f"FIFO broken: {t} granted before earlier live waiters {ahead}"
                    waitlist.remove(t)
                    dead.discard(t)
                elif t in fastpending:
                    fastpending.discard(t)
                else:
                    live = [u for u in waitlist if u not in dead]
                    if live or fastpending:
                        return f"barging: newcomer {t} acquired past {live + sorted(fastpending)}"
                holders.add(t)
            elif name == "acquire" and out == "cancelled":
                if t in waitlist:
                    waitlist.remove(t)
                dead.discard(t)
                fastpending.discard(t)
            elif name in ("acquire", "acquire_nowait") and out == "runtimeerror":
                if t in waitlist:
                    waitlist.remove(t)
                if t not in holders:
                    return f"{name} by non-holder {t} raised RuntimeError"
            elif name == "acquire_nowait" and out == "wouldblock":
                if not holders and not waitlist and not fastpending:
                    return "acquire_nowait raised WouldBlock on a free lock without waiters"
            elif name == "release" and out == "ret":
                if t not in holders:
                    return f"release by non-holder {t} accepted"
                holders.discard(t)
            elif name == "release" and out == "runtimeerror":
                if t in holders:
                    return f"release by holder {t} refused"
            else:
                return f"unexpected outcome {out!r} of {name}"
    if last_obs is not None:
        f = dict(kv.split("=") for kv in last_obs.split())
        live = [u for u in waitlist if u not in dead]
        if not holders and not fastpending and (f["locked"] != "0" or f["waiters"] != "0"):
            return f"nobody holds the lock at the end but it reports {last_obs} (live waiters {live})"
        if b.deadlock and not holders and live:
            return f"tasks {live} blocked forever on a lock nobody holds"
    return None


# --------------------------------------------------------------------------- history logs


def real_logs(lines: list[list[str]]) -> str:
    """The three history lists of Props/C09fifo.lean (who started waiting, who was handed the lock by a
    release, whose waiter future was cancelled), derived from the REAL lock's public statistics only: an
    `acquire` that suspended is queued iff the lock is afterwards owned by somebody else (owner = caller:
    uncontended path; no owner: spinning in a cancelled scope); a hand-over is an owner change to a task
    that is queued.  Observations are per loop handle; one handle holds at most one hand-over and at
    most one new waiter.  The model driver answers the same `log` request from its ghost state."""
    enq: list[int] = []
    granted: list[int] = []
    cancelled: list[int] = []
    queued: set[int] = set()
    pending: int | None = None
    prev_owner = "-"
    for req, out in lines:
        w = req.split()
        if w[0] == "acquire" and out == "susp":
            pending = int(w[1])
        elif w[0] == "fc":
            cancelled.append(int(w[1]))
        elif w[0] == "step" and out != "susp":
            queued.discard(int(w[1]))  # its acquire has ended (raised the cancellation)
        elif w[0] == "obs" and out:
            f = dict(kv.split("=") for kv in out.split())
            owner = f["owner"]
            if pending is not None:
                if owner not in ("-", "?", str(pending)):
                    enq.append(pending)
                    queued.add(pending)
                pending = None
            if owner != prev_owner and owner.isdigit() and int(owner) in queued:
                granted.append(int(owner))
                queued.discard(int(owner))
            prev_owner = owner
    fmt = lambda l: ",".join(map(str, l)) if l else "-"  # noqa: E731
    return f"enq={fmt(enq)} granted={fmt(granted)} cancelled={fmt(cancelled)}"


# --------------------------------------------------------------------------- run


def nontrivial_key(b: Bench) -> tuple | None:
    reqs = [r for r, _ in b.lines]
    contended = any(r.startswith("acquire") and o == "susp" for r, o in b.lines)
    cancelled = any(r.startswith(("fc", "mc")) for r in reqs)
    if contended or cancelled:
        return tuple((r, o) for r, o in b.lines if not r.startswith("obs"))
    return None


def run_cases(cases: list[dict], res: Result, eager_every: int = 0) -> None:
    adapter_lines: list[str] = []
    benches: list[Bench] = []
    for i, case in enumerate(cases):
        b = Bench(LockAdapter(), case, eager=bool(eager_every and i % eager_every == 0)).run()
        benches.append(b)
        if not b.error:
            lg = real_logs(b.lines)
            b.lines.append(["log", lg])
            res.stats["history_logs_compared"] = res.stats.get("history_logs_compared", 0) + 1
            if "granted=-" not in lg:
                res.stats["history_logs_with_handover"] = res.stats.get("history_logs_with_handover", 0) + 1
            if "cancelled=-" not in lg:
                res.stats["history_logs_with_cancelled_waiter"] = res.stats.get(
                    "history_logs_with_cancelled_waiter", 0) + 1
        adapter_lines += [r for r, _ in b.lines]
    replies = run_model("lock", adapter_lines)
    pos = 0
    st = res.stats.setdefault("outcomes", {})
    for case, b in zip(cases, benches):
        rep = replies[pos: pos + len(b.lines)]
        pos += len(b.lines)
        res.evaluations += 1
        for r, o in b.lines:
            k = r.split()[0] + ":" + o.split()[0] if not r.startswith("obs") else "obs"
            st[k] = st.get(k, 0) + 1
        res.stats["handover_cancels"] = res.stats.get("handover_cancels", 0) + b.handover_cancels
        res.stats["deadlocks"] = res.stats.get("deadlocks", 0) + int(b.deadlock)
        if b.error:
            res.violations.append(Violation(case, b.error, "harness:" + b.error[:30]))
            continue
        bad = oracle(b)
        if bad:
            res.violations.append(Violation(case, bad, "C09:" + bad.split(":")[0]))
        d = compare(b.lines, rep)
        if d:
            res.disagreements.append(Disagreement(case, d[1]))
        else:
            res.traces_validated += 1
        k = nontrivial_key(b)
        if k is not None:
            res.nontrivial.add(hash(k))
        if len(res.samples) < 4 and k is not None:
            res.samples.append({"case": case, "trace": [f"{r} -> {o}" for r, o in b.lines[:14]]})


def run(ctx: Ctx) -> Result:
    res = Result(rule="random scripts for 2..N tasks over acquire/acquire_nowait/release/yield/"
                      "cancel j/ncancel j (fast_acquire on/off, entry in cancelled scope); a case is "
                      "non-trivial if some acquire had to wait or a cancellation landed inside an "
                      "operation; distinct = distinct event traces")
    cases = [c for c in load_corpus("C09")]
    n = ctx.n(400, 12000)
    mt, mo = (4, 7) if ctx.tier == "quick" else (6, 10)
    cases += [gen_case(ctx.rng, mt, mo) for _ in range(n)]
    if ctx.tier == "thorough" and ctx.budget == 1.0:
        cases += list(enum_cases(3))
        res.stats["enumerated_small_scope"] = True
    for i in range(0, len(cases), 500):
        run_cases(cases[i: i + 500], res)
        if ctx.time_left() < 0:
            break
    return res


def replay(ctx: Ctx, case: Any) -> Result:
    res = Result(rule="replay")
    run_cases([case], res)
    return res


if __name__ == "__main__":
    import sys
    from .common import check_main

    sys.exit(check_main("C09", run, replay=replay, models=["lock"],
                        technique_note="Lean 4 theorems over the Lock LTS (all event lists) + trace "
                                       "validation of the real Lock against the model + history oracle"))
