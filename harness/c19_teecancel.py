"""C19, tee() under cancellation: the real `anyio.itertools.tee` driven cycle by cycle under the
virtual-time loop, its consumers' cancel scopes cancelled at generated points, cancelled consumers
retrying; every execution is replayed by the Lean LTS `AnyioModel.Iter.TeeCancel` (`md_teecancel`).

A *case* is
    {"teecancel": {"n": consumers, "xs": source sequence, "mode": "sync" | "gate" | "sleep",
                   "extra": calls after the first StopAsyncIteration},
     "choices": [int, ...],            base schedule
     "cancels": [[k, i], ...]}         at decision point k cancel the scope of consumer i's
                                       current call (of its next call when it is idle)

Consumer i is a task that, when told, enters a fresh `CancelScope` and awaits `it_i.__anext__()`
in it.  The controller task repeatedly (decision point k = 0, 1, ...) first applies the cancels
planned for k, then computes the enabled base actions

    tick     the loop has ready handles: let one loop cycle run
    src      (mode "gate") the source's `__anext__` is pending: let it answer
    next i   consumer i is idle and still has calls to make

and takes the one the choice list selects (index modulo the number of enabled actions; 0 when the
list is exhausted).  Source kinds: "sync" (a plain iterator: goes through the real
`_IterableAsyncIterator`), "gate" (async iterator whose `__anext__` awaits a future the controller
resolves) and "sleep" (async, suspends once in `sleep(0)`); the async ones are cancel-safe (a
cancelled `__anext__` takes nothing).

What the real code does is logged as the event list of the Lean LTS -- `next i`, `step i` (one
loop handle of consumer i's task), `src_yield`/`src_end`, `cancel i`, `deliver i` (the pending
future consumer i waits for was cancelled by `_deliver_cancellation`; read off the task after
every handle) -- with the outcomes susp / ret v / stop / cancelled, plus a final observation
(elements pulled, lock state, per-consumer sequences).  `pc i` probes before the events give the
histogram of model branches that were exercised.

Oracle (from the property text, on the real code's history alone): what a consumer has received
is at every moment a prefix of the source sequence -- a cancelled call makes it neither skip nor
repeat an element; every consumer that runs to the end saw exactly the source sequence and then
only StopAsyncIteration; the source is pulled once per element (len+1 completed pulls, never two
at a time); whenever all consumers are idle the lock is free with an empty queue.
"""

from __future__ import annotations

import asyncio
import time
from typing import Any

import anyio.itertools as ai
from anyio import CancelScope

from . import vloop
from .common import Ctx, Disagreement, Result, Violation, run_model

KEY = "teecancel"


class Bench:
    def __init__(self, case: dict):
        cfg = case[KEY]
        self.case = case
        self.n: int = cfg["n"]
        self.xs: list[int] = list(cfg["xs"])
        self.mode: str = cfg.get("mode", "sync")
        self.extra: int = int(cfg.get("extra", 0))
        self.choices: list[int] = list(case.get("choices", []))
        self.plan: dict[int, list[int]] = {}
        for k, i in case.get("cancels", []):
            self.plan.setdefault(int(k), []).append(int(i))
        self.decisions = 0
        self.actions: list[str] = []
        self.lines: list[list[str]] = []
        self.open: list[int | None] = [None] * self.n
        self.in_op = [False] * self.n
        self.busy = [False] * self.n
        self.calls_left = [len(self.xs) + 1 + self.extra] * self.n
        self.precancel = [False] * self.n
        self.scope: list[Any] = [None] * self.n
        self.delivered = [False] * self.n
        self.tasks: list[Any] = []
        self.index: dict[int, int] = {}
        # the real code's history, for the oracle
        self.seen: list[list[int]] = [[] for _ in range(self.n)]
        self.outcomes: list[list[str]] = [[] for _ in range(self.n)]
        self.stops = [0] * self.n
        self.ncanc = [0] * self.n
        self.cancels_applied = 0
        self.cancels_skipped = 0
        self.src_calls = 0
        self.src_cancels = 0
        self.src_done = 0  # completed pulls (value or end)
        self.src_pos = 0
        self.src_ended = False
        self.in_src: int | None = None
        self.pending: asyncio.Future | None = None
        self.lock: Any = None
        self.error: str | None = None
        self.stuck = False
        self.teardown = False
        self.notes: dict[str, int] = {}
        self.used = 0  # choices consumed

    # ---- log
    def emit(self, req: str, reply: str | None = None) -> int:
        self.lines.append([req, reply if reply is not None else "?"])
        return len(self.lines) - 1

    def emit_ev(self, i: int, req: str, reply: str | None = None) -> int:
        self.emit(f"pc {i}")  # probe: compared with nothing, feeds the branch histogram
        return self.emit(req, reply)

    def set_outcome(self, i: int, out: str) -> None:
        k = self.open[i]
        if k is not None:
            self.lines[k][1] = out
            self.open[i] = None
            if k == len(self.lines) - 1:
                self.emit(f"pc {i}")  # probe of the state reached (only when nothing was logged since)

    def me(self) -> int:
        return self.index[id(asyncio.current_task())]

    def poll(self) -> None:
        """`deliver i`: the future consumer i is waiting for has been cancelled (lock queue / gate
        source), or its task was marked for cancellation while suspended in the sleep source"""
        for i in range(self.n):
            if not self.in_op[i] or self.delivered[i]:
                continue
            t = self.tasks[i]
            w = getattr(t, "_fut_waiter", None)
            hit = isinstance(w, asyncio.Future) and w.cancelled()
            if self.in_src == i and not hit:
                hit = bool(getattr(t, "_must_cancel", False))
            if hit:
                self.delivered[i] = True
                self.emit_ev(i, f"deliver {i}", "ok")

    # ---- loop hooks
    def on_handle(self, kind: str, who: Any, handle: Any) -> None:
        if kind in ("step", "wakeup") and isinstance(who, asyncio.Task):
            i = self.index.get(id(who))
            if i is None or not self.in_op[i]:
                return
            if self.in_src == i:
                return  # resumes inside the source: the source logs what happens
            if self.delivered[i] and self.lock is not None:
                # (statistics only; tolerant of a different private layout of the lock)
                queued = any(t is who for t, _ in getattr(self.lock, "_waiters", ()))
                k = "cancelled_waiter_removes_itself" if queued else "cancelled_waiter_dropped_by_release"
                self.notes[k] = self.notes.get(k, 0) + 1
            self.open[i] = self.emit_ev(i, f"step {i}")

    def after_handle(self, kind: str, who: Any, handle: Any) -> None:
        for i in range(self.n):
            if self.open[i] is not None:
                self.set_outcome(i, "susp")
        self.poll()

    # ---- the source
    def source(self) -> Any:
        b = self

        class Async:
            def __aiter__(self) -> Any:
                return self

            async def __anext__(self) -> int:
                i = b.me()
                if b.in_src is not None:
                    b.error = f"concurrent: consumer {i} entered the source's __anext__ while consumer " \
                              f"{b.in_src} was inside it"
                b.src_calls += 1
                b.in_src = i
                try:
                    if b.mode == "gate":
                        b.pending = asyncio.get_running_loop().create_future()
                        await b.pending
                    else:
                        await asyncio.sleep(0)
                except asyncio.CancelledError:
                    b.in_src = None
                    b.pending = None
                    b.src_cancels += 1
                    if not b.delivered[i]:
                        b.delivered[i] = True
                        b.emit_ev(i, f"deliver {i}", "ok")
                    b.open[i] = b.emit_ev(i, f"step {i}")
                    raise
                b.in_src = None
                b.pending = None
                b.src_done += 1
                if b.src_pos < len(b.xs):
                    v = b.xs[b.src_pos]
                    b.src_pos += 1
                    b.open[i] = b.emit_ev(i, "src_yield")
                    return v
                b.src_ended = True
                b.open[i] = b.emit_ev(i, "src_end")
                raise StopAsyncIteration

        class Sync:
            def __iter__(self) -> Any:
                return self

            def __next__(self) -> int:
                b.src_done += 1
                if b.src_pos < len(b.xs):
                    v = b.xs[b.src_pos]
                    b.src_pos += 1
                    return v
                b.src_ended = True
                raise StopIteration

        return Sync() if self.mode == "sync" else Async()

    # ---- consumers
    async def consumer(self, i: int, it: Any, gate: list) -> None:
        while True:
            fut = asyncio.get_running_loop().create_future()
            gate[i] = fut
            await fut
            with CancelScope() as sc:
                self.scope[i] = sc
                if self.precancel[i]:
                    self.precancel[i] = False
                    sc.cancel()
                self.delivered[i] = False
                self.open[i] = self.emit_ev(i, f"next {i}")
                self.in_op[i] = True
                out = None
                try:
                    v = await it.__anext__()
                    out = f"ret {v}"
                    self.seen[i].append(v)
                    self.calls_left[i] -= 1
                except StopAsyncIteration:
                    out = "stop"
                    self.stops[i] += 1
                    self.calls_left[i] -= 1
                except asyncio.CancelledError:
                    if self.teardown:
                        raise
                    self.ncanc[i] += 1
                    self.in_op[i] = False
                    self.set_outcome(i, "cancelled")
                    self.outcomes[i].append("cancelled")
                    raise  # swallowed by the scope
                except BaseException as e:  # noqa: BLE001
                    out = "exc:" + type(e).__name__
                    self.error = f"exception: consumer {i}: __anext__ raised {type(e).__name__}: {e}"
                self.in_op[i] = False
                self.set_outcome(i, out)
                self.outcomes[i].append(out)
            self.scope[i] = None
            self.busy[i] = False
            if self.error:
                return

    # ---- controller
    def apply_cancel(self, i: int, gate: list) -> None:
        if i >= self.n:
            return
        sc = self.scope[i]
        if self.in_op[i] and sc is not None and not sc.cancel_called:
            self.cancels_applied += 1
            self.actions.append(f"cancel {i}")
            self.emit_ev(i, f"cancel {i}", "ok")
            sc.cancel()
            self.poll()
        elif (not self.busy[i] and self.calls_left[i] > 0 and gate[i] is not None and not gate[i].done()
              and not self.precancel[i]):
            self.cancels_applied += 1
            self.actions.append(f"cancel {i} (idle)")
            self.emit_ev(i, f"cancel {i}", "ok")
            self.precancel[i] = True
        else:
            self.cancels_skipped += 1

    def enabled(self, gate: list, loop: Any) -> list[tuple]:
        acts: list[tuple] = []
        if len(loop._ready) > 0:
            acts.append(("tick",))
        if self.pending is not None and not self.pending.done():
            acts.append(("src",))
        for i in range(self.n):
            if not self.busy[i] and self.calls_left[i] > 0 and gate[i] is not None and not gate[i].done():
                acts.append(("next", i))
        return acts

    def check_lock_free(self) -> None:
        if self.lock is None or any(self.busy) or self.error:
            return
        st = self.lock.statistics()
        if st.locked or st.tasks_waiting:
            self.error = (f"lock: all consumers are idle but the lock is "
                          f"{'held' if st.locked else 'free'} with {st.tasks_waiting} queued")

    async def settle(self, loop: Any) -> None:
        for _ in range(1000):
            if len(loop._ready) == 0:
                return
            await asyncio.sleep(0)

    async def main(self) -> None:
        loop = asyncio.get_running_loop()
        its = ai.tee(self.source(), self.n)
        if self.n:
            self.lock = getattr(getattr(its[0], "_state", None), "lock", None)
        gate: list = [None] * self.n
        for i in range(self.n):
            t = loop.create_task(self.consumer(i, its[i], gate))
            t._log_destroy_pending = False  # type: ignore[attr-defined]
            self.index[id(t)] = i
            self.tasks.append(t)
        await self.settle(loop)
        k = 0
        for _ in range(20000):
            for i in self.plan.get(self.decisions, ()):
                self.apply_cancel(i, gate)
            self.check_lock_free()
            acts = self.enabled(gate, loop)
            if not acts or self.error:
                break
            c = (self.choices[k] if k < len(self.choices) else 0) % len(acts)
            k += 1
            self.used = k
            self.decisions += 1
            a = acts[c]
            self.actions.append(" ".join(str(x) for x in a))
            if a[0] == "next":
                i = a[1]
                self.busy[i] = True
                gate[i].set_result(None)
            elif a[0] == "src":
                assert self.pending is not None
                self.pending.set_result(None)
            else:
                await asyncio.sleep(0)
        await self.settle(loop)
        self.check_lock_free()
        self.stuck = any(self.busy)
        self.teardown = True
        for t in self.tasks:
            t.cancel()
        await asyncio.gather(*self.tasks, return_exceptions=True)

    def run(self) -> "Bench":
        self.emit("new " + " ".join(str(x) for x in [self.n, 1 if self.mode == "sync" else 0, *self.xs]), "ok")
        try:
            vloop.run(self.main, on_handle=self.on_handle, after_handle=self.after_handle,
                      max_cycles=60000)
        except vloop.CycleBudgetExceeded:
            self.error = self.error or "harness: cycle budget exceeded"
        except Exception as e:  # noqa: BLE001
            self.error = self.error or f"harness: {type(e).__name__}: {e}"
        locked = waiting = 0
        if self.lock is not None:
            st = self.lock.statistics()
            locked, waiting = int(st.locked), st.tasks_waiting
        got = ";".join(f"{i}:" + ",".join(str(v) for v in self.seen[i]) for i in range(self.n))
        fin = "".join("1" if self.stops[i] else "0" for i in range(self.n))
        canc = ",".join(str(c) for c in self.ncanc)
        self.emit("obs", f"pulled={self.src_pos} ended={int(self.src_ended)} locked={locked} "
                         f"waiting={waiting} got={got} fin={fin} canc={canc}")
        if self.mode != "sync":
            self.emit("obs_calls", f"calls={self.src_calls} cancels={self.src_cancels}")
        return self


def oracle(b: Bench) -> str | None:
    """the property text on the real code's history"""
    if b.error:
        return b.error
    if b.stuck:
        return f"stuck: consumers {[i for i in range(b.n) if b.busy[i]]} never got an answer from __anext__"
    for i in range(b.n):
        if b.seen[i] != b.xs[:len(b.seen[i])]:
            return (f"lost: consumer {i} of {b.n} received {b.seen[i]}, not a prefix of the source sequence "
                    f"{b.xs} ({b.ncanc[i]} of its calls were cancelled; outcomes {b.outcomes[i]})")
        if b.stops[i]:
            first = b.outcomes[i].index("stop")
            before = [o for o in b.outcomes[i][:first] if o.startswith("ret")]
            after = [o for o in b.outcomes[i][first:] if o.startswith("ret")]
            if len(before) != len(b.xs) or after:
                return (f"lost: consumer {i} got StopAsyncIteration after {len(before)} of {len(b.xs)} "
                        f"elements, {len(after)} values after it (outcomes {b.outcomes[i]})")
        if b.calls_left[i] == 0 and (b.seen[i] != b.xs or b.stops[i] != 1 + b.extra):
            return (f"lost: consumer {i} ran to the end and received {b.seen[i]} and {b.stops[i]} "
                    f"StopAsyncIteration, source {b.xs}")
        if b.calls_left[i] != 0:
            return f"stuck: consumer {i} has {b.calls_left[i]} calls left at the end of the run"
    if b.n > 0 and b.src_done != len(b.xs) + 1:
        return (f"once: the source was pulled to completion {b.src_done} times for {len(b.xs)} elements "
                f"({b.src_cancels} cancelled pulls)")
    return None


def run_one(case: dict) -> Bench:
    return Bench(case).run()


def branch_hist(b: Bench, rep: list[str], hist: dict) -> None:
    """event @ suspension point before (+c = scope cancelled) -> outcome > suspension point after"""
    n = len(b.lines)
    for j, ((req, exp), got) in enumerate(zip(b.lines, rep)):
        w = req.split()
        if w[0] in ("pc", "new", "obs", "obs_calls"):
            continue
        pre = rep[j - 1] if j > 0 and b.lines[j - 1][0].startswith("pc ") else "?"
        post = rep[j + 1] if j + 1 < n and b.lines[j + 1][0].startswith("pc ") else ""
        k = f"{w[0]}@{pre}->{exp.split()[0]}" + (f">{post}" if post and w[0] in ("next", "step") else "")
        hist[k] = hist.get(k, 0) + 1


def check_batch(benches: list[Bench], res: Result) -> None:
    lines: list[str] = []
    for b in benches:
        lines += [r for r, _ in b.lines]
    replies = run_model(KEY, lines)
    pos = 0
    st = res.stats.setdefault(KEY, {})
    hist = st.setdefault("branches", {})
    for b in benches:
        rep = replies[pos: pos + len(b.lines)]
        pos += len(b.lines)
        res.evaluations += 1
        st["runs"] = st.get("runs", 0) + 1
        st["runs_" + b.mode] = st.get("runs_" + b.mode, 0) + 1
        st["cancels_applied"] = st.get("cancels_applied", 0) + b.cancels_applied
        st["cancelled_calls"] = st.get("cancelled_calls", 0) + sum(b.ncanc)
        case = dict(b.case, choices=b.choices[:b.used])
        for kk, vv in b.notes.items():
            st[kk] = st.get(kk, 0) + vv
        bad = oracle(b)
        if bad:
            res.violations.append(Violation(case, "tee under cancellation: " + bad,
                                            "C19:teecancel:" + bad.split(":")[0]))
        d = None
        for j, ((req, exp), got) in enumerate(zip(b.lines, rep)):
            if exp != "?" and exp != got:
                d = (f"teecancel line {j}: request {req!r}: implementation {exp!r}, model {got!r}; "
                     f"actions {b.actions}")
                break
        if d:
            res.disagreements.append(Disagreement(case, d))
        else:
            res.traces_validated += 1
            branch_hist(b, rep, hist)
        retried = any("cancelled" in o and any(x != "cancelled" for x in o[o.index("cancelled"):])
                      for o in b.outcomes)
        if retried:
            res.nontrivial.add(hash(tuple((r, o) for r, o in b.lines)))
            if sum(1 for s in res.samples if KEY in s.get("case", {})) < 2 and b.n >= 2:
                res.samples.append({"case": case, "actions": b.actions[:14],
                                    "trace": [f"{r} -> {o}" for r, o in b.lines if not r.startswith("pc ")][:18]})


RULE = ("tee under cancellation: schedules (loop cycles, source answers, anext calls as letters) of "
        "<= 3 consumers over <= 4 elements, sync / gate / sleep sources; for every base schedule the "
        "single-cancel sweep (every decision point x every consumer) plus random multi-cancel plans. "
        "Non-trivial = some call ended with CancelledError and the same consumer called again and got "
        "an answer; distinct = distinct logged event lists")


def gen_cfg(rng: Any) -> dict:
    n = rng.choice((1, 2, 2, 2, 3))
    L = rng.choice((0, 1, 2, 2, 3, 4))
    return {"n": n, "xs": list(range(5, 5 + L)), "mode": rng.choice(("sync", "sync", "gate", "sleep")),
            "extra": rng.choice((0, 0, 1))}


def run_cases(ctx: Ctx, res: Result, t_end: float, corpus: list | None = None) -> None:
    batch: list[Bench] = []

    def flush() -> None:
        if batch:
            check_batch(batch, res)
            batch.clear()

    def add(case: dict) -> Bench:
        b = run_one(case)
        batch.append(b)
        if len(batch) >= 300:
            flush()
        return b

    for case in corpus or []:
        add(case)
    st = res.stats.setdefault(KEY, {})
    sweeps = 0
    # 1. fixed small configurations, single-cancel sweep over a round-robin-ish base schedule
    fixed = [{"n": n, "xs": list(range(5, 5 + L)), "mode": m, "extra": e}
             for (n, L, e) in ((1, 1, 0), (2, 2, 0), (2, 0, 1), (2, 1, 1), (3, 2, 0))
             for m in ("sync", "gate", "sleep")]
    todo: list[tuple[dict, list[int]]] = [(cfg, [ctx.rng.randint(0, 5) for _ in range(120)]) for cfg in fixed]
    nbase = ctx.n(400, 20000)  # cut by the time budget
    k = 0
    while time.time() < t_end and (todo or k < nbase):
        if todo:
            cfg, choices = todo.pop(0)
        else:
            k += 1
            cfg = gen_cfg(ctx.rng)
            # mostly ticks (index 0) so that calls overlap only partly, or uniformly random
            p = ctx.rng.choice((0.0, 0.3, 0.6))
            choices = [0 if ctx.rng.random() < p else ctx.rng.randint(0, 5) for _ in range(160)]
        base = add({KEY: cfg, "choices": choices, "cancels": []})
        D = base.decisions
        sweeps += 1
        # 2. the single-cancel sweep of this schedule
        points = [(d, i) for d in range(D + 1) for i in range(cfg["n"])]
        if ctx.tier == "quick" and len(points) > 60:
            points = ctx.rng.sample(points, 60)
        for d, i in points:
            if time.time() > t_end:
                break
            add({KEY: cfg, "choices": choices, "cancels": [[d, i]]})
        # 3. random multi-cancel plans
        for _ in range(ctx.n(6, 30)):
            if time.time() > t_end:
                break
            m = ctx.rng.randint(2, 6)
            plan = sorted([ctx.rng.randint(0, D + 4), ctx.rng.randrange(cfg["n"])] for _ in range(m))
            add({KEY: cfg, "choices": choices, "cancels": plan})
    flush()
    st["base_schedules"] = sweeps


def run(ctx: Ctx, budget_s: float | None = None) -> Result:
    res = Result(rule=RULE)
    if budget_s is None:
        budget_s = 8.0 if ctx.tier == "quick" else 120.0
    if ctx.deadline:
        budget_s = max(2.0, min(budget_s, ctx.time_left() - 2.0))
    focus = [ctx.focus] if isinstance(ctx.focus, dict) and KEY in ctx.focus else []
    run_cases(ctx, res, time.time() + budget_s, focus)
    res.violations.sort(key=lambda v: len(repr(v.case)))
    res.disagreements.sort(key=lambda d: len(repr(d.case)))
    return res


def replay(ctx: Ctx, case: Any) -> Result:
    res = Result(rule="replay")
    if isinstance(case, dict) and KEY in case:
        check_batch([run_one(case)], res)
    return res


if __name__ == "__main__":
    import json
    import os
    import random
    import sys

    tier = "thorough" if "--tier=thorough" in sys.argv or "thorough" in sys.argv[1:] else "quick"
    seed = int(os.environ.get("VERIF_SEED", "0") or 0)
    ctx = Ctx("C19", tier, seed, random.Random(f"C19:teecancel:{seed}"))
    rp = [a for a in sys.argv[1:] if a.endswith(".json")]
    t0 = time.time()
    if rp:
        payload = json.loads(open(rp[0]).read())
        r = replay(ctx, payload.get("case", payload))
    else:
        r = run(ctx)
    print(json.dumps(r.stats, indent=1, sort_keys=True))
    for v in r.violations[:3]:
        print("VIOLATION", v.signature, v.what, json.dumps(v.case))
    for d in r.disagreements[:3]:
        print("DISAGREEMENT", d.detail, json.dumps(d.case))
    print(f"teecancel tier={tier} seed={seed} runs={r.evaluations} traces={r.traces_validated} "
          f"nontrivial={len(r.nontrivial)} disagreements={len(r.disagreements)} "
          f"violations={len(r.violations)} wall={time.time() - t0:.1f}s")
    sys.exit(1 if r.violations or r.disagreements else 0)
