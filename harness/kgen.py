"""Random program generator for the kernel bench (see harness/kernel.py for the DSL)."""

from __future__ import annotations

import random
from typing import Any

DEFAULT_W = {
    "yield": 10, "sleep": 7, "await": 3, "set": 4, "chkif": 3, "shchk": 2, "raise": 4, "effdl": 2,
    "scope": 10, "cancel": 9, "cbcancel": 2, "shield": 2, "deadline": 3,
    "group": 7, "spawn": 9, "start": 4, "catch": 3, "catchall": 1, "finally": 4,
    "ncancel": 2, "uncancel": 1, "hcancel": 3, "hwait": 3, "started": 4,
    "raisegroup": 1, "failafter": 2, "dldance": 1, "idlespawn": 1,
}


class Gen:
    def __init__(self, rng: random.Random, weights: dict[str, int] | None = None,
                 max_depth: int = 3, max_len: int = 5, ntasks: int = 4):
        self.rng = rng
        self.w = dict(DEFAULT_W)
        if weights:
            self.w.update(weights)
        self.max_depth = max_depth
        self.max_len = max_len
        self.ntasks = ntasks
        self.nkey = 0
        self.nerr = 0
        self.nfuts = rng.randint(0, 2)
        self.scope_keys: list[str] = []
        self.group_keys: list[str] = []
        self.names = [f"t{i}" for i in range(ntasks)]

    def key(self, prefix: str) -> str:
        self.nkey += 1
        return f"{prefix}{self.nkey}"

    def body(self, depth: int, level: int, in_group: list[str]) -> list:
        n = self.rng.randint(1, self.max_len)
        return [self.stmt(depth, level, in_group) for _ in range(n)]

    def pick(self) -> str:
        ks = list(self.w)
        return self.rng.choices(ks, [self.w[k] for k in ks])[0]

    def stmt(self, depth: int, level: int, in_group: list[str]) -> list:  # noqa: C901
        r = self.rng
        for _ in range(20):
            k = self.pick()
            if k in ("scope", "group", "catch", "catchall", "finally", "failafter", "dldance",
                     "idlespawn") and depth >= self.max_depth:
                continue
            if k == "yield":
                return ["yield"]
            if k == "sleep":
                return ["sleep", r.randint(1, 4)]
            if k == "await":
                if self.nfuts == 0:
                    continue
                return ["await", r.randrange(self.nfuts)]
            if k == "set":
                if self.nfuts == 0:
                    continue
                return ["set", r.randrange(self.nfuts)]
            if k in ("chkif", "shchk", "effdl", "uncancel", "started"):
                return [k]
            if k == "raise":
                self.nerr += 1
                return ["raise", self.nerr]
            if k == "raisegroup":
                self.nerr += 1
                return ["raisegroup", r.choice([["n"], ["n", f"e{self.nerr}"], [f"e{self.nerr}", "n"]])]
            if k == "dldance":
                # one scope whose deadline is paused (inf), moved later/earlier and resumed while the
                # clock runs past the earlier values
                key = self.key("s")
                self.scope_keys.append(key)
                steps: list = []
                for _ in range(r.randint(3, 7)):
                    c = r.random()
                    if c < 0.45:
                        steps.append(["deadline", key, r.choice([None, None, 1, 2, 3, 5, 8])])
                    elif c < 0.85:
                        steps.append(["sleep", r.randint(1, 4)])
                    else:
                        steps.append(r.choice([["effdl"], ["yield"], ["chkif"]]))
                kind = r.choice(["scope", "scope", "failafter"])
                return [kind, {"k": key, "deadline": r.choice([None, 1, 2, 3])}, steps]
            if k == "idlespawn":
                # a scope is cancelled while the only task below it sits behind a shield, so that its
                # delivery runs dry; a child is then spawned into a group 0..2 plain scopes further down
                # (the F4 shape; seeded change K2_2 breaks it for every depth but 0)
                names = [n for i, n in enumerate(self.names) if i >= level]
                if not names:
                    continue
                top = self.key("s")
                self.scope_keys.append(top)
                gk = self.key("g")
                self.group_keys.append(gk)
                inner: list = [["cancel", top]] + [["yield"] for _ in range(r.randint(2, 4))]
                inner += [["spawn", gk, r.choice(names)], r.choice([["sleep", 2], ["yield"], ["sleep", 1]])]
                prog: list = ["group", {"k": gk}, [["scope", {"k": self.key("s"), "shield": True}, inner]]]
                for _ in range(r.randint(0, 2)):
                    mid = self.key("s")
                    self.scope_keys.append(mid)
                    prog = ["scope", {"k": mid}, [prog]]
                return ["scope", {"k": top}, [prog]]
            if k == "failafter":
                key = self.key("s")
                self.scope_keys.append(key)
                return ["failafter", {"k": key, "deadline": r.choice([None, 0, 1, 2, 3, 5])},
                        self.body(depth + 1, level, in_group)]
            if k == "scope":
                key = self.key("s")
                self.scope_keys.append(key)
                opts: dict[str, Any] = {"k": key}
                if r.random() < 0.25:
                    opts["shield"] = True
                if r.random() < 0.35:
                    opts["deadline"] = r.randint(0, 5)
                if r.random() < 0.1:
                    opts["pre"] = True
                return ["scope", opts, self.body(depth + 1, level, in_group)]
            if k in ("cancel", "cbcancel", "shield", "deadline"):
                cands = list(self.scope_keys) + ["g:" + g for g in self.group_keys]
                cands += ["h:" + n for n in self.names]
                if not cands:
                    continue
                key = r.choice(cands)
                if k == "shield":
                    return ["shield", key, r.random() < 0.5]
                if k == "deadline":
                    return ["deadline", key, r.choice([None, 0, 1, 2, 3, 5])]
                return [k, key]
            if k == "group":
                gk = self.key("g")
                self.group_keys.append(gk)
                body = self.body(depth + 1, level, in_group + [gk])
                # make sure most groups get children
                names = [n for i, n in enumerate(self.names) if i >= level]
                if names:
                    for _ in range(r.randint(0, 2)):
                        body.insert(r.randrange(len(body) + 1),
                                    [r.choice(["spawn", "spawn", "start"]), gk, r.choice(names)])
                return ["group", {"k": gk}, body]
            if k in ("spawn", "start"):
                names = [n for i, n in enumerate(self.names) if i >= level]
                gks = in_group if (in_group and r.random() < 0.8) else self.group_keys
                if not names or not gks:
                    continue
                return [k, r.choice(gks), r.choice(names)]
            if k in ("catch", "catchall"):
                return [k, self.body(depth + 1, level, in_group)]
            if k == "finally":
                if r.random() < 0.6:
                    cleanup = [["scope", {"k": self.key("s"), "shield": True},
                                [r.choice([["yield"], ["sleep", 1], ["chkif"]])]]]
                else:
                    cleanup = self.body(depth + 1, level, in_group)
                return ["finally", self.body(depth + 1, level, in_group), cleanup]
            if k in ("ncancel", "hcancel", "hwait"):
                return [k, r.choice(self.names)]
        return ["yield"]

    def program(self) -> dict:
        tasks = {}
        # generate main first so that keys exist for the children to refer to
        main = self.body(0, 0, [])
        for i, n in enumerate(self.names):
            tasks[n] = self.body(1, i + 1, [])
        if self.rng.random() < 0.75:
            main = [["scope", {"k": "root", "deadline": self.rng.randint(6, 14)}, main]]
        return {"nfuts": self.nfuts, "main": main, "tasks": tasks}


def gen_program(rng: random.Random, **kw: Any) -> dict:
    return Gen(rng, **kw).program()
