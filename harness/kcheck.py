"""Shared runner of the kernel properties C01-C07: generate programs (profile per property),
run them on the real code under the tracing loop, replay the logged event list in the Lean
kernel model (`md_kernel`) and compare every reply, and judge the real code's history with the
property's oracle (harness/koracle.py)."""

from __future__ import annotations

import json
import random
from typing import Any

from .common import Ctx, Disagreement, Result, Violation, load_corpus, run_model
from .kernel import KRun
from .kgen import gen_program
from .koracle import analyze

PROFILES: dict[str, dict[str, Any]] = {
    "C01": dict(weights={"group": 12, "spawn": 14, "start": 6, "cancel": 10, "raise": 3, "finally": 6,
                         "hwait": 4, "hcancel": 4, "await": 4, "set": 5}, max_len=5),
    "C02": dict(weights={"group": 12, "spawn": 12, "start": 7, "raise": 9, "cancel": 7, "finally": 6,
                         "catch": 4}, max_len=5),
    "C03": dict(weights={"cancel": 14, "cbcancel": 4, "scope": 14, "shield": 5, "spawn": 10, "group": 8,
                         "sleep": 10, "await": 5, "chkif": 5, "raise": 1, "deadline": 4, "finally": 5},
                max_len=6),
    "C04": dict(weights={"scope": 18, "cancel": 14, "shield": 7, "cbcancel": 3, "raise": 3, "group": 5,
                         "spawn": 6, "ncancel": 3, "finally": 4, "raisegroup": 5}, max_len=5, max_depth=5),
    "C05": dict(weights={"scope": 16, "cancel": 12, "ncancel": 6, "uncancel": 3, "catchall": 4, "group": 6,
                         "spawn": 8, "hcancel": 6, "deadline": 4, "raise": 2, "sleep": 8}, max_len=6),
    "C06": dict(weights={"scope": 16, "deadline": 10, "sleep": 14, "effdl": 6, "cancel": 4, "shield": 3,
                         "raise": 1, "group": 4, "spawn": 5, "failafter": 10, "dldance": 8}, max_len=6),
    "C07": dict(weights={"start": 16, "started": 12, "group": 10, "cancel": 10, "raise": 6, "spawn": 6,
                         "finally": 5, "hcancel": 3, "sleep": 6}, max_len=5),
}

# level claimed per property (kept in step with tools/gen_manifest.py): "proof" once the property's
# theorems over the kernel model are in lean/AnyioModel/Props/Cxx.lean
LEVELS = {p: "proof" for p in ("C01", "C02", "C03", "C04", "C05", "C06", "C07")}

RULES = {
    "C01": "child spawned and group exited",
    "C02": "some task or body raised a non-cancellation exception inside a group",
    "C03": "a cancellation reached a blocked or about-to-block task",
    "C04": "a scope exit saw an AnyIO cancellation or an exception group",
    "C05": "a scope was left after a delivery had hit its host",
    "C06": "a deadline fired or was reassigned",
    "C07": "start() was used and the caller or child ended abnormally or started() was called",
}


def nontrivial(prop: str, run: KRun) -> bool:
    reqs = [r for r, _ in run.lines]
    reps = [o for _, o in run.lines]
    if prop == "C01":
        return any(" spawn " in r or " start " in r for r in reqs) and any(" aexit " in r for r in reqs)
    if prop == "C02":
        return any(" aexit " in r for r in reqs) and any(h[3] == "raise" for h in run.history)
    if prop == "C03":
        return any(o in ("resumed c", "done c") for o in reps)
    if prop == "C04":
        return any(" exit " in r and (r.endswith(" c") or " g:" in r) for r in reqs)
    if prop == "C05":
        return any(r.startswith("run deliver") for r in reqs) and any(" exit " in r for r in reqs)
    if prop == "C06":
        return any(r.startswith("run timeout") or " deadline " in r for r in reqs)
    if prop == "C07":
        return any(" start " in r for r in reqs)
    return False


def run_uvloop(prop: str, programs: list[dict], res: Result, ctx: Ctx | None = None) -> None:
    """The same programs on a real uvloop (C tasks, libuv timers; real time, so no handle tracing and
    no model replay): the history is judged by the oracle of `prop`.  Deadline values (C06) are not
    comparable on a real clock and are skipped.  A verdict counts only if it repeats on two reruns."""
    from .kernel import KRunUV

    st = res.stats.setdefault("uvloop", {"programs": 0, "abandoned": 0, "unrepeatable": 0})
    for prog in programs:
        if ctx is not None and ctx.time_left() < 5:
            break
        r = KRunUV(prog).run()
        st["programs"] += 1
        if r.deadlock:
            st["abandoned"] += 1
            continue
        res.evaluations += 1
        what = analyze(r)[prop][:1]
        if not what:
            continue
        again = [KRunUV(prog).run() for _ in range(2)]
        if all((not a.deadlock) and analyze(a)[prop] for a in again):
            sig = f"{prop}:uvloop:" + what[0].split(":")[0][:60].rstrip("0123456789 ")
            res.violations.append(Violation({"uvloop": prog}, "on uvloop: " + what[0], sig))
        else:
            st["unrepeatable"] += 1


def run_programs(prop: str, programs: list[dict], res: Result, *, eager_every: int = 0) -> list[dict]:
    runs = []
    for i, prog in enumerate(programs):
        try:
            r = KRun(prog, eager=bool(eager_every and i % eager_every == eager_every - 1)).run()
        except Exception as e:  # harness failure: never silently skip
            res.violations.append(Violation(prog, f"harness error {e!r}", "harness-error"))
            continue
        runs.append((prog, r))
    if not runs:
        return []
    replies = run_model("kernel", [l[0] for _, r in runs for l in r.lines])
    pos = 0
    st = res.stats.setdefault("events", {})
    for prog, r in runs:
        rep = replies[pos: pos + len(r.lines)]
        pos += len(r.lines)
        res.evaluations += 1
        res.stats["deadlocks"] = res.stats.get("deadlocks", 0) + int(r.deadlock)
        for req, out in r.lines:
            w = req.split()
            k = w[0] if w[0] in ("cycle", "q", "new") else ("run-" + w[1] if w[0] == "run" else w[1])
            st[k] = st.get(k, 0) + 1
        V = analyze(r)
        for what in V[prop][:1]:
            sig = f"{prop}:" + what.split(":")[0][:60].rstrip("0123456789 ")
            res.violations.append(Violation(prog, what, sig))
        bad = None
        for i, ((req, exp), got) in enumerate(zip(r.lines, rep)):
            if exp != got:
                bad = f"line {i}: request {req!r}: implementation {exp!r}, model {got!r}"
                break
        if bad:
            res.disagreements.append(Disagreement(prog, bad))
        else:
            res.traces_validated += 1
        if nontrivial(prop, r):
            res.nontrivial.add(hash(tuple((a, b) for a, b in r.lines if not a.startswith(("q ", "cycle")))))
            if len(res.samples) < 3:
                res.samples.append({"program": prog,
                                    "trace_head": [f"{a} -> {b}" for a, b in r.lines[:16]]})
    return [prog for prog, r in runs if not r.deadlock and nontrivial(prop, r)]


def run(prop: str, ctx: Ctx, quick: int = 1500, thorough: int = 90000) -> Result:
    res = Result(rule=f"random task/scope/group programs (profile {prop}) interpreted on the real AnyIO "
                      f"code (quick 1800, thorough 108000 programs + an oracle-only uvloop leg); every API call and loop handle replayed in the Lean kernel model; a case "
                      f"is non-trivial if {RULES[prop]}; distinct = distinct event traces")
    prof = PROFILES[prop]
    progs = list(load_corpus(prop))
    n = ctx.n(quick, thorough)
    if ctx.tier == "thorough":
        prof = dict(prof, ntasks=5)
    for _ in range(n):
        progs.append(gen_program(ctx.rng, **prof))
    # a fraction with the default profile keeps every property exposed to the full vocabulary
    for _ in range(n // 5):
        progs.append(gen_program(ctx.rng))
    finished: list[dict] = []
    for i in range(0, len(progs), 200):
        finished += run_programs(prop, progs[i: i + 200], res, eager_every=4)
        if ctx.time_left() < 0:
            break
    if prop != "C06" and not res.violations:
        # the non-trivial programs that terminate, again on uvloop (oracle only)
        ctx.rng.shuffle(finished)
        run_uvloop(prop, finished[: ctx.n(60, 2500)], res, ctx)
    # minimise the first failing case of each kind so that the replay file is readable
    if (res.violations and res.violations[0].signature != "harness-error"
            and "uvloop" not in res.violations[0].case):
        v = res.violations[0]
        small = shrink(prop, v.case, lambda q: _fails_oracle(prop, q))
        if small != v.case:
            r = KRun(small).run()
            what = (analyze(r)[prop] or [v.what])[0]
            res.violations[0] = Violation(small, what, v.signature)
    if res.disagreements:
        d = res.disagreements[0]
        small = shrink(prop, d.case, lambda q: _fails_model(prop, q))
        if small != d.case:
            r = KRun(small).run()
            rep = run_model("kernel", [l[0] for l in r.lines])
            detail = next((f"line {i}: request {req!r}: implementation {exp!r}, model {got!r}"
                           for i, ((req, exp), got) in enumerate(zip(r.lines, rep)) if exp != got), d.detail)
            res.disagreements[0] = Disagreement(small, detail)
    if prop == "C04":
        # containment as seen from a worker thread: from_thread.check_cancelled() must report exactly
        # _effectively_cancelled of the caller's chain (16 chain shapes; theorem C14_check_cancelled_iff)
        from .c14 import check_cancelled_matrix

        check_cancelled_matrix(res, tag="C04")
    return res


def _variants(prog: dict):
    """programs with one statement (at any depth) removed, or a compound statement replaced by its body"""
    import copy

    def paths(stmts: list, prefix: tuple):
        for i, st in enumerate(stmts):
            yield prefix + (i,)
            if st[0] in ("scope", "group"):
                yield from paths(st[2], prefix + (i, 2))
            elif st[0] in ("catch", "catchall"):
                yield from paths(st[1], prefix + (i, 1))
            elif st[0] == "finally":
                yield from paths(st[1], prefix + (i, 1))
                yield from paths(st[2], prefix + (i, 2))

    roots = [("main",)] + [("tasks", n) for n in prog["tasks"]]
    for root in roots:
        body = prog[root[0]] if len(root) == 1 else prog["tasks"][root[1]]
        for path in list(paths(body, ())):
            q = copy.deepcopy(prog)
            cur = q[root[0]] if len(root) == 1 else q["tasks"][root[1]]
            for k in path[:-1]:
                cur = cur[k]
            del cur[path[-1]]
            yield q


def shrink(prop: str, prog: dict, fails, budget_s: float = 20.0) -> dict:
    """greedy delta debugging on the statement tree: keep removing statements while `fails` holds"""
    import time

    t0 = time.time()
    improved = True
    while improved and time.time() - t0 < budget_s:
        improved = False
        for q in _variants(prog):
            if time.time() - t0 > budget_s:
                break
            try:
                if fails(q):
                    prog = q
                    improved = True
                    break
            except Exception:
                continue
    return prog


def _fails_oracle(prop: str, prog: dict) -> bool:
    r = KRun(prog).run()
    return bool(analyze(r)[prop])


def _fails_model(prop: str, prog: dict) -> bool:
    r = KRun(prog).run()
    rep = run_model("kernel", [l[0] for l in r.lines])
    return any(exp != got for (req, exp), got in zip(r.lines, rep))


def replay(prop: str, ctx: Ctx, case: Any) -> Result:
    res = Result(rule="replay")
    if "check_cancelled" in case:
        from .c14 import check_cancelled_matrix

        check_cancelled_matrix(res, only=case["check_cancelled"], tag=prop)
    elif "uvloop" in case:
        run_uvloop(prop, [case["uvloop"]], res)
    else:
        run_programs(prop, [case], res)
    return res


def main(prop: str, technique_note: str) -> int:
    from .common import check_main

    return check_main(prop, lambda c: run(prop, c), replay=lambda c, case: replay(prop, c, case),
                      models=["kernel"], technique_note=technique_note, level=LEVELS.get(prop, "proof"))
