"""Generic multi-task bench for the primitive models (C09-C13, C20 ...).

A *case* is `{"cfg": ..., "scripts": [[op, ...], ...]}`: one script per task; an op is a
list `[name, *args]`.  Ops understood by the bench itself:

  ["yield"]        the task does `await asyncio.sleep(0)` outside any primitive operation
  ["cancel", j]    cancel the cancel scope wrapped around task j's current operation
  ["ncancel", j]   native `Task.cancel()` on task j if it is inside an operation

Every other op is handed to the *adapter* (one per primitive), and runs inside its own
`CancelScope`.  If the op's last element is the string "pre" that scope is cancelled before
the call (the caller's scope is already cancelled on entry).

The bench runs the scripts on the real AnyIO code under `VLoop` and produces the event list
the Lean model replays, together with what the real code did:

  call-line (adapter.fmt)  -> outcome: susp | ret ... | <error kind>
  step t                   -> outcome of the operation t is inside of, or susp
  fc t / mc t              -> env
  obs                      -> adapter.obs()

`fc t` is logged as soon as the future task t is blocked on is seen cancelled, `mc t` as soon
as `Task._must_cancel` is seen set (both only while t is inside an operation).
"""

from __future__ import annotations

import asyncio
import warnings
from typing import Any

import anyio
from anyio import CancelScope

from . import vloop

warnings.filterwarnings("ignore", category=RuntimeWarning)


class Adapter:
    """One per primitive."""

    model = ""

    def new_line(self, cfg: Any) -> str:  # first request line of a case
        raise NotImplementedError

    def setup(self, cfg: Any, bench: "Bench") -> None:  # create the real object (inside the loop)
        raise NotImplementedError

    def fmt(self, t: int, op: list, pre: bool) -> str:  # request line for the call event
        raise NotImplementedError

    def call(self, t: int, op: list) -> Any:  # perform the op on the real object
        raise NotImplementedError

    def ok(self, t: int, op: list, value: Any) -> str:
        return "ret"

    def exc(self, t: int, op: list, e: BaseException) -> str:
        if isinstance(e, asyncio.CancelledError):
            return "cancelled"
        if isinstance(e, anyio.WouldBlock):
            return "wouldblock"
        if isinstance(e, RuntimeError):
            return "runtimeerror"
        if isinstance(e, ValueError):
            return "valueerror"
        return "exc:" + type(e).__name__

    def obs(self) -> str:
        raise NotImplementedError


class Bench:
    def __init__(self, adapter: Adapter, case: dict, *, eager: bool = False, obs: bool = True):
        self.adapter = adapter
        self.case = case
        self.eager = eager
        self.want_obs = obs
        self.lines: list[list[str]] = []  # [request, expected reply]
        self.n = len(case["scripts"])
        self.tasks: list[asyncio.Task | None] = [None] * self.n
        self.index: dict[int, int] = {}  # id(task) -> t
        self.in_op = [False] * self.n
        self.scope: list[CancelScope | None] = [None] * self.n
        self.open: list[int | None] = [None] * self.n
        self.fc_seen = [False] * self.n
        self.mc_seen = [False] * self.n
        self.dirty = False
        self.deadlock = False
        self.error: str | None = None
        self.events: list[tuple] = []  # oracle-level history: (kind, t, op, outcome)
        self.cancel_hits = 0
        self.handover_cancels = 0

    # ---- log helpers
    def emit(self, req: str, reply: str | None) -> int:
        self.lines.append([req, reply if reply is not None else "?"])
        self.dirty = True
        return len(self.lines) - 1

    def set_outcome(self, t: int, out: str) -> None:
        i = self.open[t]
        if i is not None:
            self.lines[i][1] = out
            self.open[t] = None

    def scan(self) -> None:
        for j, task in enumerate(self.tasks):
            if task is None or not self.in_op[j] or task.done():
                continue
            w = task._fut_waiter  # type: ignore[attr-defined]
            if w is not None and w.cancelled():
                if not self.fc_seen[j]:
                    self.fc_seen[j] = True
                    self.emit(f"fc {j}", "env")
            elif task._must_cancel and not self.mc_seen[j]:  # type: ignore[attr-defined]
                self.mc_seen[j] = True
                self.emit(f"mc {j}", "env")

    # ---- loop hooks
    def on_handle(self, kind: str, who: Any, handle: Any) -> None:
        if kind in ("step", "wakeup") and isinstance(who, asyncio.Task):
            t = self.index.get(id(who))
            if t is not None and self.in_op[t]:
                self.open[t] = self.emit(f"step {t}", None)
                self.fc_seen[t] = False
                self.mc_seen[t] = False

    def after_handle(self, kind: str, who: Any, handle: Any) -> None:
        for t in range(self.n):
            if self.open[t] is not None:
                self.set_outcome(t, "susp")
        self.scan()
        if self.dirty and self.want_obs:
            self.emit("obs", self.adapter.obs())
            self.dirty = False
            self.events.append(("obs", -1, None, self.lines[-1][1]))

    # ---- the tasks
    async def task_main(self, t: int) -> None:
        me = asyncio.current_task()
        assert me is not None
        self.tasks[t] = me
        self.index[id(me)] = t
        for op in self.case["scripts"][t]:
            kind = op[0]
            if kind == "yield":
                await asyncio.sleep(0)
                continue
            if kind == "cancel":
                j = op[1]
                sc = self.scope[j]
                if j != t and sc is not None and self.in_op[j]:
                    self.note_cancel(j, "scope")
                    sc.cancel()
                    self.scan()
                continue
            if kind == "ncancel":
                j = op[1]
                tj = self.tasks[j]
                if j != t and tj is not None and self.in_op[j] and not tj.done():
                    self.note_cancel(j, "native")
                    tj.cancel()
                    self.scan()
                continue
            pre = op[-1] == "pre"
            core = op[:-1] if pre else op
            try:
                with CancelScope() as sc:
                    self.scope[t] = sc
                    if pre:
                        sc.cancel()
                    self.open[t] = self.emit(self.adapter.fmt(t, core, pre), None)
                    self.events.append(("call", t, core, "pre" if pre else ""))
                    self.fc_seen[t] = self.mc_seen[t] = False
                    self.in_op[t] = True
                    try:
                        r = self.adapter.call(t, core)
                        if hasattr(r, "__await__"):
                            r = await r
                        out = self.adapter.ok(t, core, r)
                    except BaseException as e:
                        out = self.adapter.exc(t, core, e)
                        raise
                    finally:
                        self.in_op[t] = False
                        self.set_outcome(t, out)
                        self.events.append(("op", t, core, out))
            except asyncio.CancelledError:
                # a native cancellation (ncancel) that no scope absorbs
                me.uncancel()
            except Exception:
                pass
            finally:
                self.scope[t] = None

    def note_cancel(self, j: int, how: str = "") -> None:
        self.cancel_hits += 1
        tj = self.tasks[j]
        w = tj._fut_waiter if tj is not None else None  # type: ignore[attr-defined]
        if w is not None and w.done() and not w.cancelled():
            self.handover_cancels += 1
        self.events.append(("cancel", j, None, how))

    async def main(self) -> None:
        self.adapter.setup(self.case.get("cfg"), self)
        loop = asyncio.get_running_loop()
        ts = []
        for t in range(self.n):
            task = loop.create_task(self.task_main(t))
            task._log_destroy_pending = False  # type: ignore[attr-defined]
            self.tasks[t] = task
            self.index[id(task)] = t
            ts.append(task)
        await asyncio.gather(*ts)

    def run(self) -> "Bench":
        self.emit(self.adapter.new_line(self.case.get("cfg")), "ok")
        try:
            vloop.run(
                self.main,
                eager=self.eager,
                on_handle=self.on_handle,
                after_handle=self.after_handle,
                max_cycles=20000,
            )
        except vloop.Deadlock:
            self.deadlock = True
            for t in range(self.n):
                if self.open[t] is not None:
                    self.set_outcome(t, "susp")
        except vloop.CycleBudgetExceeded:
            self.error = "cycle budget exceeded (busy loop)"
        if self.want_obs:
            try:
                self.emit("obs", self.adapter.obs())
            except Exception as e:  # pragma: no cover
                self.error = f"obs failed: {e!r}"
        return self


def prim(kind: str, adapter: bool, *a: Any, **kw: Any) -> Any:
    """An AnyIO synchronisation primitive; with `adapter` the wrapper class a user gets when the object
    is created while no event loop is running (module-level primitives): it forwards to a backend
    object created on first use, and has to behave identically."""
    import anyio
    from anyio._core import _synchronization as S

    if adapter:
        cls = {"Lock": S.LockAdapter, "Semaphore": S.SemaphoreAdapter,
               "CapacityLimiter": S.CapacityLimiterAdapter, "Event": S.EventAdapter}[kind]
    else:
        cls = getattr(anyio, kind)
    return cls(*a, **kw)


def compare(lines: list[list[str]], replies: list[str]) -> tuple[int, str] | None:
    """first index where model reply and implementation differ"""
    for i, ((req, exp), got) in enumerate(zip(lines, replies)):
        if exp != got:
            return i, f"line {i}: request {req!r}: implementation {exp!r}, model {got!r}"
    return None
