"""C10 Semaphore and CapacityLimiter: correspondence (trace validation of the real classes
against the Lean models `sem` and `limiter`) + independent history oracles."""

from __future__ import annotations

import itertools
import math
import random
import re
from collections import Counter
from typing import Any

import anyio

from .bench import Adapter, Bench, compare, prim
from .common import Ctx, Disagreement, Result, Violation, load_corpus, run_model

BORROWER_BASE = 100  # explicit borrower objects are numbered 100, 101, ... (never a task index)


def kv(s: str) -> dict[str, str]:
    return dict(p.split("=", 1) for p in s.split())


class SamplingAdapter(Adapter):
    """Adds public-API samples around every call: one `sample` event for the oracle before the
    call, and after the call completes an `obs` line for the model plus a `sample` event."""

    bench: Bench

    def sample(self, t: int, op: list | None) -> None:
        self.bench.events.append(("sample", t, op, self.obs()))

    def after(self, t: int) -> None:
        o = self.obs()
        self.bench.emit("obs", o)
        self.bench.events.append(("sample", t, None, o))

    def ok(self, t: int, op: list, value: Any) -> str:
        self.after(t)
        return "ret"

    def exc(self, t: int, op: list, e: BaseException) -> str:
        self.after(t)
        if isinstance(e, TypeError):
            return "typeerror"
        return super().exc(t, op, e)


class SemAdapter(SamplingAdapter):
    model = "sem"

    def new_line(self, cfg: Any) -> str:
        m = cfg.get("max")
        if cfg.get("adapter"):
            # SemaphoreAdapter (a Semaphore created while no loop runs) silently drops fast_acquire on
            # the pinned tree (DESIGN section 4, observation O1: not one of the 20 properties).  The
            # combination is not generated, so that neither the bug nor its repair shows up as a
            # disagreement.
            cfg["fast"] = False
        return f"new {int(bool(cfg['fast']))} {cfg['init']} {'-' if m is None else m}"

    def setup(self, cfg: Any, bench: Bench) -> None:
        self.bench = bench
        self.contended: dict[int, bool] = {}
        self.sem = prim("Semaphore", bool(cfg.get("adapter")), cfg["init"], max_value=cfg.get("max"),
                        fast_acquire=bool(cfg["fast"]))

    def fmt(self, t: int, op: list, pre: bool) -> str:
        self.sample(t, op)
        if op[0] == "acquire":
            # for the history logs (sem_real_logs): will this call have to queue?  Public state only.
            self.contended[len(self.bench.lines)] = not (
                self.sem.value > 0 and self.sem.statistics().tasks_waiting == 0)
            return f"acquire {t} {int(pre)}"
        return f"{op[0]} {t}"

    def call(self, t: int, op: list) -> Any:
        if op[0] == "acquire":
            return self.sem.acquire()
        if op[0] == "acquire_nowait":
            return self.sem.acquire_nowait()
        if op[0] == "release":
            return self.sem.release()
        raise ValueError(op)

    def obs(self) -> str:
        return f"value={self.sem.value} waiters={self.sem.statistics().tasks_waiting}"


class LimiterAdapter(SamplingAdapter):
    model = "limiter"

    def __init__(self, discipline: bool = True):
        self.discipline = discipline
        self.inflight: Counter = Counter()  # borrower -> acquire_on_behalf_of calls not yet completed
        self.skipping: dict[int, bool] = {}
        self.objs: dict[int, object] = {}
        self.ids: dict[int, int] = {}

    @staticmethod
    def tot(v: Any) -> Any:
        return math.inf if v == "inf" else v

    def new_line(self, cfg: Any) -> str:
        return f"new {cfg['total']}"

    def setup(self, cfg: Any, bench: Bench) -> None:
        self.bench = bench
        self.lim = prim("CapacityLimiter", bool(cfg.get("adapter")), self.tot(cfg["total"]))

    def borrower(self, b: int) -> object:
        if b not in self.objs:
            o = type("Borrower", (), {})()
            self.objs[b] = o
            self.ids[id(o)] = b
        return self.objs[b]

    def bid(self, o: object) -> int:
        if id(o) in self.ids:
            return self.ids[id(o)]
        return self.bench.index.get(id(o), 999)

    @staticmethod
    def target(t: int, op: list) -> int | None:
        if op[0] in ("acquire", "acquire_nowait", "release"):
            return t
        if op[0] in ("acquire_on_behalf_of", "acquire_on_behalf_of_nowait", "release_on_behalf_of"):
            return op[1]
        return None

    def fmt(self, t: int, op: list, pre: bool) -> str:
        b = self.target(t, op)
        # generator constraint = the theorems' precondition (OneWaitPerBorrower / ReleaseAfterReturn):
        # no acquire/release for a borrower while another acquire for it has not returned
        self.skipping[t] = bool(
            self.discipline and b is not None and self.inflight[b] > 0
            and op[0] in ("acquire_on_behalf_of", "release_on_behalf_of")
        )
        if self.skipping[t]:
            self.bench.events.append(("skip", t, op, ""))
            return "skip"
        self.sample(t, op)
        n = op[0]
        if n == "acquire":
            return f"acquire {t} {int(pre)}"
        if n in ("acquire_nowait", "release"):
            return f"{n} {t}"
        if n == "acquire_on_behalf_of":
            return f"{n} {t} {op[1]} {int(pre)}"
        if n in ("acquire_on_behalf_of_nowait", "release_on_behalf_of"):
            return f"{n} {t} {op[1]}"
        if n == "set_total":
            return f"set_total {op[1]}"
        if n == "set_total_bad":
            return f"set_total_bad {op[1]}"
        raise ValueError(op)

    def call(self, t: int, op: list) -> Any:
        if self.skipping.get(t):
            return None
        n = op[0]
        if n == "acquire":
            self.inflight[t] += 1
            return self.lim.acquire()
        if n == "acquire_nowait":
            return self.lim.acquire_nowait()
        if n == "release":
            return self.lim.release()
        if n == "acquire_on_behalf_of":
            self.inflight[op[1]] += 1
            return self.lim.acquire_on_behalf_of(self.borrower(op[1]))
        if n == "acquire_on_behalf_of_nowait":
            return self.lim.acquire_on_behalf_of_nowait(self.borrower(op[1]))
        if n == "release_on_behalf_of":
            return self.lim.release_on_behalf_of(self.borrower(op[1]))
        if n == "set_total":
            self.lim.total_tokens = self.tot(op[1])
            return None
        if n == "set_total_bad":
            self.lim.total_tokens = -1 if op[1] == "neg" else 1.5
            return None
        raise ValueError(op)

    def done(self, t: int, op: list) -> None:
        if op[0] in ("acquire", "acquire_on_behalf_of"):
            self.inflight[self.target(t, op)] -= 1

    def ok(self, t: int, op: list, value: Any) -> str:
        if self.skipping.get(t):
            return "skipped"
        self.done(t, op)
        return super().ok(t, op, value)

    def exc(self, t: int, op: list, e: BaseException) -> str:
        self.done(t, op)
        return super().exc(t, op, e)

    def obs(self) -> str:
        st = self.lim.statistics()
        tot = self.lim.total_tokens
        av = self.lim.available_tokens
        ids = sorted(self.bid(o) for o in st.borrowers)
        return (f"borrowed={self.lim.borrowed_tokens} total={'inf' if math.isinf(tot) else int(tot)} "
                f"available={'inf' if math.isinf(av) else int(av)} waiting={st.tasks_waiting} "
                f"borrowers={','.join(map(str, ids))}")


# --------------------------------------------------------------------------- generators


def gen_tail(rng: random.Random, n: int, t: int, ops: list) -> None:
    """yield / cancel / native cancel of another task"""
    others = [j for j in range(n) if j != t]
    r = rng.random()
    if r < 0.45:
        ops.append(["yield"])
    elif r < 0.75:
        ops.append(["cancel", rng.choice(others)])
    else:
        ops.append(["ncancel", rng.choice(others)])


def gen_sem(rng: random.Random, max_tasks: int, max_ops: int) -> dict:
    n = rng.randint(2, max_tasks)
    init = rng.choice([0, 0, 1, 1, 1, 2, 2, 3, 4])
    mx = None if rng.random() < 0.55 else init + rng.choice([0, 0, 1, 2])
    scripts = []
    for t in range(n):
        ops: list[list] = []
        holding = 0
        for _ in range(rng.randint(1, max_ops)):
            r = rng.random()
            if r < 0.30:
                ops.append(["acquire"] + (["pre"] if rng.random() < 0.08 else []))
                holding += 1  # optimistic; cancellation may void it
            elif r < 0.38:
                ops.append(["acquire_nowait"])
            elif r < 0.60:
                if holding or rng.random() < 0.35:  # extra releases are legitimate for a semaphore
                    ops.append(["release"])
                    holding = max(0, holding - 1)
                    if rng.random() < 0.35:  # aim at the hand-over cycle
                        ops.append([rng.choice(["ncancel", "cancel"]), rng.choice([j for j in range(n) if j != t])])
                else:
                    ops.append(["yield"])
            else:
                gen_tail(rng, n, t, ops)
        while holding and rng.random() < 0.8:
            ops.append(["release"])
            holding -= 1
        scripts.append(ops)
    return {"kind": "sem", "cfg": {"init": init, "max": mx, "fast": rng.random() < 0.4,
                                   "adapter": rng.random() < 0.25}, "scripts": scripts}


def gen_lim(rng: random.Random, max_tasks: int, max_ops: int, misuse: bool = False) -> dict:
    n = rng.randint(2, max_tasks)
    total: Any = rng.choice([0, 1, 1, 1, 2, 2, 3, 4, "inf"])
    pool = [BORROWER_BASE + k for k in range(rng.randint(1, 4))]
    scripts = []
    for t in range(n):
        ops: list[list] = []
        own = False
        mine: list[int] = []  # borrowers this task believes it acquired for
        for _ in range(rng.randint(1, max_ops)):
            r = rng.random()
            others = [j for j in range(n) if j != t]
            pre = ["pre"] if rng.random() < 0.07 else []
            if r < 0.20:
                ops.append(["acquire"] + pre)
                own = True
            elif r < 0.25:
                ops.append(["acquire_nowait"])
                own = True
            elif r < 0.40:
                b = rng.choice(pool)
                ops.append(["acquire_on_behalf_of", b] + pre)
                mine.append(b)
            elif r < 0.44:
                b = rng.choice(pool)
                ops.append(["acquire_on_behalf_of_nowait", b])
                mine.append(b)
            elif r < 0.64:
                c = rng.random()
                if own and c < 0.5:
                    ops.append(["release"])
                    own = False
                elif mine and c < 0.92:
                    ops.append(["release_on_behalf_of", mine.pop(rng.randrange(len(mine)))])
                elif c < 0.96:
                    ops.append(["release_on_behalf_of", rng.choice(pool)])  # maybe someone else's / nobody's
                else:
                    ops.append(["release"])
                if rng.random() < 0.35:  # aim at the hand-over cycle
                    ops.append([rng.choice(["ncancel", "cancel"]), rng.choice(others)])
            elif r < 0.73:
                v: Any = rng.choice([0, 1, 1, 2, 2, 3, 4, 5, "inf"])
                ops.append(["set_total", v])
                if rng.random() < 0.4:  # lower, then raise again (the F1 shape)
                    ops.append(["set_total", rng.choice([1, 2, 3, 4, "inf"])])
                if rng.random() < 0.25:
                    ops.append([rng.choice(["ncancel", "cancel"]), rng.choice(others)])
            elif misuse and r < 0.77:
                ops.append(["set_total_bad", rng.choice(["neg", "type"])])
            else:
                gen_tail(rng, n, t, ops)
        if own and rng.random() < 0.8:
            ops.append(["release"])
        for b in mine:
            if rng.random() < 0.8:
                ops.append(["release_on_behalf_of", b])
        scripts.append(ops)
    case = {"kind": "lim", "cfg": {"total": total, "adapter": rng.random() < 0.25}, "scripts": scripts}
    if misuse:
        case["misuse"] = True
    return case



def enum_cases():
    """small-scope enumeration (thorough tier): all scripts over small alphabets for three tasks --
    task 0 takes and gives back, task 1 interferes (cancels task 2, changes the total), task 2 is
    the waiter.  Validation of the models, not a proof."""
    a0 = [["acquire"], ["release"], ["yield"]]
    a1 = [["acquire"], ["release"], ["cancel", 2], ["ncancel", 2], ["yield"]]
    tails = ([["acquire"], ["release"]], [["yield"], ["acquire"], ["release"]])
    for init, mx, fast in itertools.product((0, 1), (None, 1), (False, True)):
        for s0 in itertools.product(a0, repeat=2):
            for l1 in (1, 2, 3):
                for s1 in itertools.product(a1, repeat=l1):
                    for s2 in tails:
                        yield {"kind": "sem", "cfg": {"init": init, "max": mx, "fast": fast},
                               "scripts": [[list(o) for o in s0], [list(o) for o in s1], [list(o) for o in s2]]}
    b0 = [["acquire"], ["release"], ["yield"], ["set_total", 0], ["set_total", 2]]
    b1 = [["acquire"], ["release"], ["cancel", 2], ["ncancel", 2], ["set_total", 1],
          ["acquire_on_behalf_of", BORROWER_BASE], ["release_on_behalf_of", BORROWER_BASE]]
    btails = ([["acquire"], ["release"]],
              [["yield"], ["acquire_on_behalf_of", BORROWER_BASE + 1], ["release_on_behalf_of", BORROWER_BASE + 1]])
    for total in (0, 1, 2):
        for s0 in itertools.product(b0, repeat=2):
            for l1 in (1, 2):
                for s1 in itertools.product(b1, repeat=l1):
                    for s2 in btails:
                        yield {"kind": "lim", "cfg": {"total": total},
                               "scripts": [[list(o) for o in s0], [list(o) for o in s1], [list(o) for o in s2]]}


# --------------------------------------------------------------------------- oracles
#
# Written from the property text (properties.jsonl, C10), not from the Lean models.  Inputs: the
# real code's history -- calls, completions, cancellations -- and the values its public API
# reported before and after every call and after every loop handle.


def paired(events: list[tuple]) -> list[tuple]:
    """(kind, t, op, out, after): the sample the adapter takes when a call completes is logged just
    before the completion itself; attach it to the completion (`after`) instead."""
    out: list[tuple] = []
    i = 0
    while i < len(events):
        e = events[i]
        if e[0] == "sample" and e[2] is None and i + 1 < len(events) and events[i + 1][0] == "op":
            out.append(events[i + 1] + (e[3],))
            i += 2
        else:
            out.append(e + (None,))
            i += 1
    return out


def sig(kind: str, bad: str) -> str:
    return f"C10:{kind}:" + re.sub(r"[\d\[\],.=-]+", "#", bad)[:60].strip()


def oracle_sem(b: Bench) -> str | None:
    cfg = b.case["cfg"]
    mx = cfg.get("max")
    permits = cfg["init"]  # permits that exist: initial value plus extra releases
    holders: Counter = Counter()  # tasks between acquire-return and release
    inprog: dict[int, str] = {}  # task inside acquire(): "fast" (a permit was free) | "wait" | "pre"
    waitlist: list[int] = []  # tasks that had to queue, in arrival order
    dead: set[int] = set()  # queued tasks on which a cancellation was issued
    before: dict[int, dict] = {}
    last = None

    def check_sample(s: str) -> str | None:
        f = kv(s)
        v, w = int(f["value"]), int(f["waiters"])
        held = sum(holders.values())
        if held > permits:
            return f"{held} holders but only {permits} permits exist"
        if v < 0:
            return f"negative value {v}"
        if mx is not None and v > mx:
            return f"value {v} above max_value {mx}"
        if v > 0 and w > 0:
            return f"value {v} > 0 while {w} tasks are queued"
        hi = permits - held
        lo = hi - len([t for t in inprog if inprog[t] != "pre"])
        if not (lo <= v <= hi):
            return (f"reported value {v} but {permits} permits exist, {held} are held and "
                    f"{len(inprog)} acquire calls are in progress")
        return None

    for kind, t, op, out, after in paired(b.events):
        if kind in ("obs", "sample"):
            last = out
            bad = check_sample(out)
            if bad:
                return bad
            if kind == "sample" and op is not None:
                before[t] = {k: int(x) for k, x in kv(out).items()}
        elif kind == "cancel":
            if t in waitlist:
                dead.add(t)
        elif kind == "call":
            if op[0] == "acquire":
                f = before[t]
                if f["value"] > 0 and f["waiters"] == 0:
                    inprog[t] = "pre" if out == "pre" else "fast"
                else:
                    inprog[t] = "wait"
                    waitlist.append(t)
                    if out == "pre":
                        dead.add(t)
        elif kind == "op":
            name = op[0]
            f = before[t]
            if name == "acquire":
                how = inprog.pop(t, "wait")
                if out == "ret":
                    if how == "pre":
                        return f"acquire entered in a cancelled scope returned normally to {t}"
                    if how == "wait":
                        ahead = [u for u in waitlist[: waitlist.index(t)] if u not in dead]
                        if ahead:
                            return f"FIFO broken: {t} granted before earlier live waiters {ahead}"
                    holders[t] += 1
                elif out == "cancelled":
                    pass  # the sample taken after the call checks that no permit was leaked or duplicated
                elif out == "valueerror":
                    # the permit given back by a cancelled acquire was refused as an over-release
                    if mx is None:
                        return "acquire raised ValueError on a semaphore without max_value"
                    if how == "pre":
                        return "acquire raised ValueError without having taken a permit"
                    if permits - sum(holders.values()) - 1 < mx:
                        return "cancelled acquire's permit was dropped although the value was below max_value"
                    permits -= 1
                else:
                    return f"unexpected outcome {out!r} of acquire"
                if t in waitlist:
                    waitlist.remove(t)
                dead.discard(t)
            elif name == "acquire_nowait":
                if out == "ret":
                    if f["value"] <= 0:
                        return f"acquire_nowait granted a permit while the value was {f['value']}"
                    live = [u for u in waitlist if u not in dead]
                    if f["waiters"] > 0 and live:
                        return f"barging: acquire_nowait by {t} overtook waiting tasks {live}"
                    holders[t] += 1
                elif out == "wouldblock":
                    if f["value"] > 0:
                        return f"acquire_nowait raised WouldBlock while the value was {f['value']}"
                else:
                    return f"unexpected outcome {out!r} of acquire_nowait"
            elif name == "release":
                if out == "ret":
                    if mx is not None and f["value"] >= mx:
                        return f"release accepted at value {f['value']} = max_value"
                    if holders[t] > 0:
                        holders[t] -= 1
                    else:
                        permits += 1
                elif out == "valueerror":
                    if mx is None or f["value"] < mx:
                        return f"release refused at value {f['value']} (max_value {mx})"
                    a = kv(after) if after else {}
                    if a and (int(a["value"]) != f["value"] or int(a["waiters"]) != f["waiters"]):
                        return "refused release changed the semaphore"
                else:
                    return f"unexpected outcome {out!r} of release"
            if after is not None:
                last = after
                bad = check_sample(after)
                if bad:
                    return bad
    if last is not None and not inprog:
        f = kv(last)
        if int(f["value"]) != permits - sum(holders.values()) or int(f["waiters"]) != 0:
            return (f"at the end {permits} permits exist and {sum(holders.values())} are held, "
                    f"but the semaphore reports {last}")
    if b.deadlock and last is not None:
        live = [u for u in waitlist if u not in dead]
        if live and permits - sum(holders.values()) - len([t for t in inprog if inprog[t] == "fast"]) > 0:
            return f"tasks {live} blocked forever although a permit is free"
    return None


def lim_fields(s: str) -> dict:
    f = kv(s)
    return {
        "borrowed": int(f["borrowed"]),
        "total": math.inf if f["total"] == "inf" else int(f["total"]),
        "available": math.inf if f["available"] == "inf" else int(f["available"]),
        "waiting": int(f["waiting"]),
        "borrowers": {int(x) for x in f["borrowers"].split(",") if x},
    }


def oracle_lim(b: Bench, stats: dict | None = None) -> str | None:
    holders: set[int] = set()  # borrowers between acquire-return and release
    inprog: dict[int, tuple[int, str]] = {}  # task -> (borrower, "fast" | "wait" | "pre")
    waitlist: list[int] = []  # waiting borrowers in arrival order
    dead: set[int] = set()
    before: dict[int, dict] = {}
    skip: set[int] = set()
    prev: dict | None = None
    last: dict | None = None

    def target(t: int, op: list) -> int:
        return t if op[0] in ("acquire", "acquire_nowait", "release") else op[1]

    def check_sample(f: dict) -> str | None:
        nonlocal prev
        if f["borrowed"] != len(f["borrowers"]):
            return f"borrowed_tokens {f['borrowed']} but statistics lists {sorted(f['borrowers'])}"
        if f["available"] != f["total"] - f["borrowed"]:
            return f"available_tokens {f['available']} with total {f['total']} and {f['borrowed']} borrowed"
        if not holders <= f["borrowers"]:
            return f"holders {sorted(holders - f['borrowers'])} hold a token but are not reported as borrowers"
        pending = {bb for bb, how in inprog.values() if how != "pre"}
        ghost = f["borrowers"] - holders - pending
        if ghost:
            return f"borrowers {sorted(ghost)} reported although they neither hold nor are acquiring a token"
        if f["waiting"] > 0 and f["borrowed"] < f["total"]:
            return f"{f['waiting']} tasks wait while only {f['borrowed']} of {f['total']} tokens are borrowed"
        if prev is not None:
            new = f["borrowers"] - prev["borrowers"]
            if new and f["borrowed"] > f["total"]:
                return (f"token granted to {sorted(new)} although none was free: "
                        f"{f['borrowed']} borrowed of {f['total']}")
            if f["borrowed"] > f["total"] and f["borrowed"] > prev["borrowed"]:
                return f"number borrowed grew to {f['borrowed']} above total {f['total']}"
        prev = f
        return None

    for kind, t, op, out, after in paired(b.events):
        aft = lim_fields(after) if after is not None else None
        if kind in ("obs", "sample"):
            f = lim_fields(out)
            last = f
            bad = check_sample(f)
            if bad:
                return bad
            if kind == "sample" and op is not None:
                before[t] = f
        elif kind == "skip":
            skip.add(t)
        elif kind == "cancel":
            if t in inprog and inprog[t][1] == "wait":
                dead.add(inprog[t][0])
        elif kind == "call":
            if t in skip:
                continue
            if op[0] in ("acquire", "acquire_on_behalf_of"):
                bb = target(t, op)
                f = before[t]
                if out == "pre":
                    inprog[t] = (bb, "pre")
                elif bb in f["borrowers"]:
                    inprog[t] = (bb, "err")
                elif f["waiting"] == 0 and f["borrowed"] < f["total"]:
                    inprog[t] = (bb, "fast")
                else:
                    inprog[t] = (bb, "wait")
                    waitlist.append(bb)
        elif kind == "op":
            if t in skip:
                skip.discard(t)
                continue
            name = op[0]
            f = before[t]
            if name in ("acquire", "acquire_on_behalf_of"):
                bb, how = inprog.pop(t)
                if out == "ret":
                    if bb in holders:
                        return f"borrower {bb} was granted a second token"
                    if how == "pre":
                        return "acquire entered in a cancelled scope returned normally"
                    if how == "err":
                        return f"acquire for {bb}, already a borrower, returned normally"
                    if how == "wait":
                        ahead = [u for u in waitlist[: waitlist.index(bb)] if u not in dead]
                        if ahead:
                            return f"FIFO broken: {bb} granted before earlier live waiters {ahead}"
                    holders.add(bb)
                elif out == "cancelled":
                    if how == "err":
                        return "acquire by a borrower was cancelled instead of refused"
                elif out == "runtimeerror":
                    if how != "err":
                        return f"acquire for {bb} raised RuntimeError although {bb} held no token"
                else:
                    return f"unexpected outcome {out!r} of {name}"
                if how == "wait":
                    waitlist.remove(bb)
                    dead.discard(bb)
            elif name in ("acquire_nowait", "acquire_on_behalf_of_nowait"):
                bb = target(t, op)
                if out == "ret":
                    if bb in holders or bb in f["borrowers"]:
                        return f"borrower {bb} was granted a second token"
                    if f["borrowed"] >= f["total"]:
                        return f"nowait grant with {f['borrowed']} of {f['total']} tokens borrowed"
                    if f["waiting"] > 0:
                        return f"barging: nowait grant to {bb} past {f['waiting']} waiting tasks"
                    holders.add(bb)
                elif out == "wouldblock":
                    if f["waiting"] == 0 and f["borrowed"] < f["total"]:
                        return "WouldBlock although a token is free and nobody waits"
                elif out == "runtimeerror":
                    if bb not in f["borrowers"]:
                        return f"nowait acquire for {bb} raised RuntimeError although {bb} held no token"
                    if aft != f:
                        return "refused acquire changed the limiter"
                else:
                    return f"unexpected outcome {out!r} of {name}"
            elif name in ("release", "release_on_behalf_of"):
                bb = target(t, op)
                if out == "ret":
                    if bb not in holders:
                        return f"release for {bb}, which holds no token, was accepted"
                    holders.discard(bb)
                elif out == "runtimeerror":
                    if bb in holders:
                        return f"release for holder {bb} was refused"
                    if aft != f:
                        return "refused release changed the limiter"
                else:
                    return f"unexpected outcome {out!r} of {name}"
            elif name == "set_total":
                if out != "ret":
                    return f"total_tokens = {op[1]} raised {out}"
                if stats is not None:
                    v = math.inf if op[1] == "inf" else op[1]
                    k = ("below_borrowed" if v < f["borrowed"] else
                         "raise_with_waiters" if f["waiting"] and v > f["total"] else "other")
                    stats[k] = stats.get(k, 0) + 1
            elif name == "set_total_bad":
                want = "valueerror" if op[1] == "neg" else "typeerror"
                if out != want:
                    return f"total_tokens = <{op[1]}> gave {out}, expected {want}"
                if aft != f:
                    return "refused total_tokens assignment changed the limiter"
            if aft is not None:
                last = aft
                bad = check_sample(aft)
                if bad:
                    return bad
    if last is not None and not inprog:
        if last["borrowers"] != holders or last["waiting"] != 0:
            return f"at the end holders are {sorted(holders)} but the limiter reports {last}"
        if last["available"] != last["total"] - len(holders):
            return f"at the end available_tokens is {last['available']}"
    return None


# --------------------------------------------------------------------------- run


def nontrivial_key(b: Bench) -> tuple | None:
    reqs = [r for r, _ in b.lines]
    contended = any(r.startswith("acquire") and not r.startswith("acquire_nowait")
                    and not r.startswith("acquire_on_behalf_of_nowait") and o == "susp"
                    and any(r2 == f"step {r.split()[1]}" for r2 in reqs) for r, o in b.lines)
    cancelled = any(r.startswith(("fc", "mc")) for r in reqs)
    if contended or cancelled:
        return tuple((r, o) for r, o in b.lines if not r.startswith("obs"))
    return None


MODEL = {"sem": "sem", "lim": "limiter"}


def make_bench(case: dict, eager: bool = False) -> Bench:
    if case["kind"] == "sem":
        ad: Adapter = SemAdapter()
    else:
        ad = LimiterAdapter(discipline=not case.get("misuse"))
    return Bench(ad, case, eager=eager)


def sem_real_logs(lines: list[list[str]], contended: dict[int, bool]) -> str:
    """The three history lists of Props/C10fifo.lean derived from the REAL semaphore: an `acquire` that
    suspended started waiting iff, when it was called, the public state said it could not go ahead
    (`value == 0` or tasks already waiting); a waiter future was cancelled = the `fc` the bench saw on the
    real task; a queued task was handed a permit iff its wake-up returns normally, or raises although its
    future was never cancelled (a native cancellation that landed after the hand-over).  Wake-ups of
    handed-over waiters run in hand-over order (the loop's ready queue is FIFO), so the list orders can
    be compared with the model's, which logs at `release()` time."""
    enq: list[int] = []
    granted: list[int] = []
    cancelled: list[int] = []
    queued: dict[int, bool] = {}  # task -> its waiter future was cancelled
    for i, (req, out) in enumerate(lines):
        w = req.split()
        if w[0] == "acquire" and out == "susp" and contended.get(i):
            enq.append(int(w[1]))
            queued[int(w[1])] = False
        elif w[0] == "fc" and int(w[1]) in queued:
            cancelled.append(int(w[1]))
            queued[int(w[1])] = True
        elif w[0] == "step" and out != "susp" and int(w[1]) in queued:
            if not queued.pop(int(w[1])):
                granted.append(int(w[1]))
    fmt = lambda l: ",".join(map(str, l)) if l else "-"  # noqa: E731
    return f"enq={fmt(enq)} granted={fmt(granted)} cancelled={fmt(cancelled)}"


def run_cases(cases: list[dict], res: Result, eager_every: int = 0) -> None:
    benches = [make_bench(c, eager=bool(eager_every and i % eager_every == 0)).run()
               for i, c in enumerate(cases)]
    for c, b in zip(cases, benches):
        if c["kind"] == "sem" and not b.error:
            b.lines.append(["log", sem_real_logs(b.lines, b.adapter.contended)])  # type: ignore[attr-defined]
            res.stats["sem_history_logs_compared"] = res.stats.get("sem_history_logs_compared", 0) + 1
    replies: dict[int, list[str]] = {}
    for kind, model in MODEL.items():
        idx = [i for i, c in enumerate(cases) if c["kind"] == kind]
        lines = [r for i in idx for r, _ in benches[i].lines]
        out = run_model(model, lines)
        pos = 0
        for i in idx:
            replies[i] = out[pos: pos + len(benches[i].lines)]
            pos += len(benches[i].lines)
    for i, (case, b) in enumerate(zip(cases, benches)):
        kind = case["kind"]
        misuse = bool(case.get("misuse"))
        st = res.stats.setdefault("outcomes_" + kind + ("_misuse" if misuse else ""), {})
        for r, o in b.lines:
            if r.startswith("obs"):
                continue
            w = r.split()
            k = w[0] + (":pre" if w[0].startswith("acquire") and w[-1] == "1" and "nowait" not in w[0] else "") \
                + ":" + o.split()[0]
            st[k] = st.get(k, 0) + 1
        rep = replies[i]
        if misuse:
            # information only: how the excluded histories behave, and whether the model still follows
            info = res.stats.setdefault("misuse", {})
            info["cases"] = info.get("cases", 0) + 1
            flagged = sum(1 for x in rep if x.endswith(" !"))
            info["undisciplined_events"] = info.get("undisciplined_events", 0) + flagged
            d = compare(b.lines, [x[:-2] if x.endswith(" !") else x for x in rep])
            info["model_follows"] = info.get("model_follows", 0) + int(d is None)
            info["oracle_objects"] = info.get("oracle_objects", 0) + int(oracle_lim(b) is not None)
            info["deadlocks"] = info.get("deadlocks", 0) + int(b.deadlock)
            continue
        res.evaluations += 1
        res.stats["handover_cancels"] = res.stats.get("handover_cancels", 0) + b.handover_cancels
        res.stats["deadlocks"] = res.stats.get("deadlocks", 0) + int(b.deadlock)
        if b.error:
            res.violations.append(Violation(case, b.error, "harness:" + b.error[:30]))
            continue
        if kind == "sem":
            bad = oracle_sem(b)
        else:
            bad = oracle_lim(b, res.stats.setdefault("set_total", {}))
        if bad:
            res.violations.append(Violation(case, bad, sig(kind, bad)))
        d = compare(b.lines, rep)
        if d:
            res.disagreements.append(Disagreement(case, d[1]))
        else:
            res.traces_validated += 1
        k = nontrivial_key(b)
        if k is not None:
            res.nontrivial.add(hash((kind, k)))
        ns = sum(1 for s in res.samples if s["case"]["kind"] == kind)
        if ns < 2 and k is not None:
            res.samples.append({"case": case, "trace": [f"{r} -> {o}" for r, o in b.lines[:16]]})


def run(ctx: Ctx) -> Result:
    res = Result(rule="random scripts for 2..N tasks; Semaphore: initial 0..4, max_value None or "
                      "initial+0..2, fast_acquire on/off, ops acquire/acquire_nowait/release (also by "
                      "non-holders)/yield/cancel j/ncancel j; CapacityLimiter: total 0..4 or inf, ops "
                      "acquire/acquire_nowait/release, *_on_behalf_of over 1..3 borrower objects shared by all "
                      "tasks, total_tokens := 0..5|inf (lower below borrowed, raise again), yield/cancel j/"
                      "ncancel j; entry in a cancelled scope; a case is non-trivial if some acquire had to "
                      "suspend and was resumed or a cancellation landed inside an operation; distinct = "
                      "distinct event traces")
    cases = [c for c in load_corpus("C10")]
    n = ctx.n(6000, 60000)
    mt, mo = (4, 7) if ctx.tier == "quick" else (6, 10)
    focus = ctx.focus.get("kind") if isinstance(ctx.focus, dict) else None
    for i in range(n):
        kind = focus if focus and i % 4 else ("sem" if i % 5 < 2 else "lim")
        cases.append(gen_sem(ctx.rng, mt, mo) if kind == "sem" else gen_lim(ctx.rng, mt, mo))
    cases += [gen_lim(ctx.rng, 4, 7, misuse=True) for _ in range(ctx.n(200, 2000))]
    for c in cases:
        if c.get("misuse"):
            # the same borrower waiting twice: two tasks, one borrower object, limiter full
            if ctx.rng.random() < 0.7:
                c["cfg"]["total"] = ctx.rng.choice([0, 1])
                c["scripts"][0][:0] = [["acquire_on_behalf_of", BORROWER_BASE]]
                c["scripts"][1][:0] = [["acquire_on_behalf_of", BORROWER_BASE]]
    if ctx.tier == "thorough" and ctx.budget == 1.0:
        cases += list(enum_cases())
        res.stats["enumerated_small_scope"] = True
    for i in range(0, len(cases), 500):
        run_cases(cases[i: i + 500], res, eager_every=7)
        if ctx.time_left() < 0:
            break
    return res


def replay(ctx: Ctx, case: Any) -> Result:
    res = Result(rule="replay")
    run_cases([case], res)
    return res


if __name__ == "__main__":
    import sys
    from .common import check_main

    sys.exit(check_main("C10", run, replay=replay, models=["sem", "limiter"],
                        technique_note="Lean 4 theorems over the Semaphore and CapacityLimiter LTS (all event "
                                       "lists, any number of tasks and borrowers) + trace validation of the real "
                                       "classes against the models + history oracles written from the property "
                                       "text",
                        assumptions=["limiter theorems hold for histories satisfying OneWaitPerBorrower and "
                                     "ReleaseAfterReturn (no second acquire, and no release, for a borrower whose "
                                     "acquire call has not returned); the generator enforces this, a separate "
                                     "misuse stream violates it and is reported as information only"],
                        quick_s=45.0, thorough_s=600.0))
