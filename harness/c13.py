"""C13 Memory object streams -- closing wakes everyone and errors tell the truth.
Correspondence (trace validation against the Lean model `mem`) + history oracle."""

from __future__ import annotations

from typing import Any

from .common import Ctx, Result, load_corpus
from .memstream import directed_cases, gen_case, run_cases

PROP = "C13"
RULE = ("random scripts for 2..N tasks over send/send_nowait/receive/receive_nowait/clone/close/yield/"
        "cancel j/ncancel j on a memory object stream with max_buffer_size 0,1,2,inf (cancellations glued "
        "to *_nowait calls in the same segment, both orders = the hand-over cycle; native cancellations only "
        "in the separately counted 'native_cancel_cases' stream); a case is non-trivial if a close happened while a peer was blocked or a call raised "
        "EndOfStream / BrokenResourceError / ClosedResourceError; distinct = distinct event traces")


def run(ctx: Ctx) -> Result:
    res = Result(rule=RULE)
    cases = [c for c in load_corpus(PROP)] + directed_cases()
    n = ctx.n(3000, 60000)
    cases += [gen_case(ctx.rng, ctx.tier, "close" if i % 4 else "deliver") for i in range(n)]
    for i in range(0, len(cases), 1000):
        run_cases(PROP, cases[i: i + 1000], res)
        if ctx.time_left() < 0:
            break
    return res


def replay(ctx: Ctx, case: Any) -> Result:
    res = Result(rule="replay")
    run_cases(PROP, [case], res)
    return res


if __name__ == "__main__":
    import sys
    from .common import check_main

    sys.exit(check_main(PROP, run, replay=replay, models=["mem"],
                        technique_note="Lean 4 theorems over the memory-stream LTS (all event lists) + trace "
                                       "validation of the real streams against the model + history oracle"))
