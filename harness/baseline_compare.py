"""Compare a junit xml from the repository's baseline command with BASELINE.json's stable_pass list."""
import json, sys, xml.etree.ElementTree as ET
base = json.load(open('/root/.vp/BASELINE.json'))
stable = set(base['stable_pass'])
passed = set()
for tc in ET.parse(sys.argv[1]).getroot().iter('testcase'):
    name = f"{tc.get('classname')}::{tc.get('name')}"
    if not any(c.tag in ('failure', 'error', 'skipped') for c in tc):
        passed.add(name)
missing = sorted(stable - passed)
print(f"stable_pass={len(stable)} passed_now={len(passed)} stable_not_passing={len(missing)}")
for m in missing[:40]:
    print("  MISSING", m)
sys.exit(1 if missing else 0)
