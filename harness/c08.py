"""C08 checkpoint discipline: complete enumeration of the operation x state matrix on the real
code, on stock asyncio, the eager task factory and uvloop.

For every cell (an operation in a state in which it can complete without waiting):
  probe C  run it inside an already cancelled scope: it must raise the cancellation exception
           (the scope absorbs it) and leave the object's observable state unchanged;
  probe Y  run it uncancelled with a `call_soon` sentinel queued just before the call: the
           sentinel must have run before the call returns (the operation yielded).
The same cells are run through the Lean models of the primitives (where one exists): the model's
prediction of both probes must agree with what the real code did.
"""

from __future__ import annotations

import asyncio
import itertools as std_itertools
import sys
from typing import Any, Awaitable, Callable

import anyio
import anyio.functools
import anyio.itertools as ait
from anyio import CancelScope, create_memory_object_stream, create_task_group

from .common import Ctx, Disagreement, Result, Violation, check_main, run_model

Make = Callable[[Any], Awaitable[tuple[Callable[[], Awaitable[Any]], Callable[[], Any], Callable[[], Awaitable[None]]]]]

# cell name -> (maker, expect_cancel_check, expect_yield)
CELLS: dict[str, tuple[Make, bool, bool]] = {}


def cell(name: str, cancel: bool = True, yields: bool | None = True) -> Callable[[Make], Make]:
    def deco(f: Make) -> Make:
        CELLS[name] = (f, cancel, yields)
        return f

    return deco


async def _noop() -> None:
    return None


# ------------------------------------------------------------------------- the matrix


@cell("sleep(0)")
async def _(tg: Any) -> Any:
    return (lambda: anyio.sleep(0)), (lambda: 0), _noop


@cell("sleep_until(past)")
async def _(tg: Any) -> Any:
    return (lambda: anyio.sleep_until(anyio.current_time() - 1)), (lambda: 0), _noop


@cell("lowlevel.checkpoint")
async def _(tg: Any) -> Any:
    return (lambda: anyio.lowlevel.checkpoint()), (lambda: 0), _noop


@cell("Event.wait[set]")
async def _(tg: Any) -> Any:
    ev = anyio.Event()
    ev.set()
    return (lambda: ev.wait()), (lambda: ev.is_set()), _noop


for _fast in (False, True):

    @cell(f"Lock.acquire[free,fast={int(_fast)}]", yields=not _fast)
    async def _(tg: Any, _fast: bool = _fast) -> Any:
        lock = anyio.Lock(fast_acquire=_fast)
        return (lambda: lock.acquire()), (lambda: (lock.locked(), lock.statistics().tasks_waiting)), _noop

    @cell(f"Semaphore.acquire[value>0,fast={int(_fast)}]", yields=not _fast)
    async def _(tg: Any, _fast: bool = _fast) -> Any:
        sem = anyio.Semaphore(2, fast_acquire=_fast)
        return (lambda: sem.acquire()), (lambda: (sem.value, sem.statistics().tasks_waiting)), _noop


@cell("CapacityLimiter.acquire[free]")
async def _(tg: Any) -> Any:
    lim = anyio.CapacityLimiter(2)
    return (lambda: lim.acquire()), (lambda: (lim.borrowed_tokens, lim.available_tokens)), _noop


@cell("CapacityLimiter.acquire_on_behalf_of[free]")
async def _(tg: Any) -> Any:
    lim = anyio.CapacityLimiter(2)
    b = object()
    return (lambda: lim.acquire_on_behalf_of(b)), (lambda: (lim.borrowed_tokens, lim.available_tokens)), _noop


@cell("Condition.acquire[free]")
async def _(tg: Any) -> Any:
    cond = anyio.Condition()
    return (lambda: cond.acquire()), (lambda: (cond.locked(), cond.statistics().tasks_waiting)), _noop


@cell("Condition.wait[cancelled scope keeps the lock]", yields=None)
async def _(tg: Any) -> Any:
    cond = anyio.Condition()
    await cond.acquire()

    def snap() -> Any:
        # still locked, nobody queued, and the caller can release (i.e. it is the owner)
        return (cond.locked(), cond.statistics().tasks_waiting)

    async def cleanup() -> None:
        cond.release()  # raises if the lock was lost

    return (lambda: cond.wait()), snap, cleanup


@cell("Condition.wait[cancelled scope keeps the lock, contender queued]", yields=None)
async def _(tg: Any) -> Any:
    cond = anyio.Condition()
    await cond.acquire()
    got: list[int] = []

    async def contender() -> None:
        with anyio.move_on_after(5):
            await cond.acquire()
            got.append(1)
            cond.release()

    tg.start_soon(contender)
    await anyio.sleep(0)
    await anyio.sleep(0)

    def snap() -> Any:
        # the contender never got in, the lock is still ours
        return (cond.locked(), tuple(got), cond.statistics().lock_statistics.tasks_waiting)

    async def cleanup() -> None:
        cond.release()  # raises if the lock was handed to the contender meanwhile

    return (lambda: cond.wait()), snap, cleanup


@cell("MemoryStream.send[buffer has room]")
async def _(tg: Any) -> Any:
    s, r = create_memory_object_stream[int](1)
    return (lambda: s.send(1)), (lambda: tuple(s.statistics())), _noop


@cell("MemoryStream.send[receiver waiting]")
async def _(tg: Any) -> Any:
    s, r = create_memory_object_stream[int](0)
    got: list[int] = []

    async def rx() -> None:
        with anyio.move_on_after(5):
            try:
                got.append(await r.receive())
            except anyio.EndOfStream:
                pass

    tg.start_soon(rx)
    await anyio.sleep(0)
    await anyio.sleep(0)

    async def cleanup() -> None:
        s.close()

    return (lambda: s.send(1)), (lambda: (tuple(s.statistics()), tuple(got))), cleanup


@cell("MemoryStream.receive[item buffered]")
async def _(tg: Any) -> Any:
    s, r = create_memory_object_stream[int](2)
    s.send_nowait(7)
    return (lambda: r.receive()), (lambda: tuple(r.statistics())), _noop


@cell("MemoryStream.receive[sender waiting]")
async def _(tg: Any) -> Any:
    s, r = create_memory_object_stream[int](0)

    async def tx() -> None:
        with anyio.move_on_after(5):
            try:
                await s.send(9)
            except anyio.BrokenResourceError:
                pass

    tg.start_soon(tx)
    await anyio.sleep(0)
    await anyio.sleep(0)

    async def cleanup() -> None:
        r.close()

    return (lambda: r.receive()), (lambda: tuple(r.statistics())), cleanup


@cell("to_thread.run_sync")
async def _(tg: Any) -> Any:
    ran: list[int] = []
    lim = anyio.CapacityLimiter(1)
    return ((lambda: anyio.to_thread.run_sync(ran.append, 1, limiter=lim)),
            (lambda: (len(ran), lim.borrowed_tokens)), _noop)


@cell("Future.wait[finished]")
async def _(tg: Any) -> Any:
    f: Any = anyio.Future()
    f.return_value = 1
    return (lambda: f.wait()), (lambda: f.status.name), _noop


@cell("await Future[finished]")
async def _(tg: Any) -> Any:
    f: Any = anyio.Future()
    f.return_value = 1

    async def aw() -> Any:
        return await f

    return aw, (lambda: f.status.name), _noop


@cell("TaskHandle.wait[finished]")
async def _(tg: Any) -> Any:
    async def quick() -> int:
        return 3

    h = tg.create_task(quick())
    await anyio.sleep(0)
    await anyio.sleep(0)
    return (lambda: h.wait()), (lambda: h.status.name), _noop


@cell("await TaskHandle[finished]")
async def _(tg: Any) -> Any:
    async def quick() -> int:
        return 3

    h = tg.create_task(quick())
    await anyio.sleep(0)
    await anyio.sleep(0)

    async def aw() -> Any:
        return await h

    return aw, (lambda: h.status.name), _noop


@cell("functools.reduce[empty iterable, initial]")
async def _(tg: Any) -> Any:
    calls: list[int] = []

    async def f(a: int, b: int) -> int:
        calls.append(1)
        return a + b

    return (lambda: anyio.functools.reduce(f, [], 5)), (lambda: len(calls)), _noop


@cell("functools.reduce[single element, no initial]")
async def _(tg: Any) -> Any:
    calls: list[int] = []

    async def f(a: int, b: int) -> int:
        calls.append(1)
        return a + b

    return (lambda: anyio.functools.reduce(f, [4])), (lambda: len(calls)), _noop


@cell("TaskGroup exit[no children]", cancel=False)
async def _(tg: Any) -> Any:
    async def op() -> None:
        async with create_task_group():
            pass

    return op, (lambda: 0), _noop


# ---- itertools: every function, full traversal, synchronous inputs and an empty async source


async def _ident(x: Any) -> Any:
    return x


async def _truthy(x: Any) -> bool:
    return bool(x)


async def _add(a: Any, b: Any) -> Any:
    return a + b


async def _empty_async() -> Any:
    return
    yield  # pragma: no cover


def _it_cases() -> dict[str, Callable[[Any], Any]]:
    """name -> function(source) -> async iterator to traverse completely"""
    c: dict[str, Callable[[Any], Any]] = {
        "accumulate": lambda src: ait.accumulate(src, _add),
        "batched": lambda src: ait.batched(src, 2),
        "chain": lambda src: ait.chain(src, []),
        "chain.from_iterable": lambda src: ait.chain.from_iterable([src]),
        "combinations": lambda src: ait.combinations(src, 2),
        "combinations_with_replacement": lambda src: ait.combinations_with_replacement(src, 2),
        "compress": lambda src: ait.compress(src, [1, 0, 1, 1]),
        "dropwhile": lambda src: ait.dropwhile(_truthy, src),
        "filterfalse": lambda src: ait.filterfalse(_truthy, src),
        "groupby": lambda src: ait.groupby(src),
        "islice": lambda src: ait.islice(src, 2),
        "islice[stop=0]": lambda src: ait.islice(src, 0),
        "pairwise": lambda src: ait.pairwise(src),
        "permutations": lambda src: ait.permutations(src, 2),
        "product": lambda src: ait.product(src, [1]),
        "starmap": lambda src: ait.starmap(_add, _pairs(src)),
        "takewhile": lambda src: ait.takewhile(_truthy, src),
        "zip_longest": lambda src: ait.zip_longest(src, []),
        "repeat[times=0]": lambda src: ait.repeat(1, 0),
        "repeat[times=2]": lambda src: ait.repeat(1, 2),
    }
    return c


def _pairs(src: Any) -> Any:
    if hasattr(src, "__aiter__"):
        return src
    return [(x, x) for x in src]


def _register_itertools() -> None:
    inputs: dict[str, Callable[[], Any]] = {
        "sync[]": lambda: [],
        "sync[1]": lambda: [1],
        "sync[1,0,2]": lambda: [1, 0, 2],
        "async-empty": lambda: _empty_async(),
    }
    for fname, mk in _it_cases().items():
        for iname, mkin in inputs.items():

            @cell(f"itertools.{fname}<{iname}>", cancel=False)
            async def _(tg: Any, mk: Any = mk, mkin: Any = mkin) -> Any:
                async def op() -> None:
                    it = mk(mkin())
                    if hasattr(it, "__await__") and not hasattr(it, "__aiter__"):
                        it = await it
                    async for _x in it:
                        pass

                return op, (lambda: 0), _noop


_register_itertools()


class _CountingIter:
    """a synchronous iterator that counts how many elements were taken from it"""

    def __init__(self, data: list) -> None:
        self.data, self.taken = list(data), 0

    def __iter__(self) -> Any:
        return self

    def __next__(self) -> Any:
        if self.taken >= len(self.data):
            raise StopIteration
        self.taken += 1
        return self.data[self.taken - 1]


def _register_itertools_cancel() -> None:
    """the first anext() of every itertools function over a synchronous source, entered in a cancelled
    scope: raises the cancellation and has not advanced the source (probe C only)"""
    for fname, mk in _it_cases().items():
        if fname.startswith("repeat"):
            continue

        @cell(f"itertools.{fname}[first anext, counting sync source]", cancel=True, yields=None)
        async def _(tg: Any, mk: Any = mk, fname: str = fname) -> Any:
            data: list = [(1, 1), (0, 0), (2, 2)] if fname == "starmap" else [1, 0, 2]
            src = _CountingIter(data)
            if fname == "starmap":
                it = ait.starmap(_add, src)
            else:
                it = mk(src)

            async def op() -> None:
                nonlocal it
                if hasattr(it, "__await__") and not hasattr(it, "__aiter__"):
                    it = await it
                await anext(aiter(it))

            return op, (lambda: src.taken), _noop


_register_itertools_cancel()


def _register_tee() -> None:
    """tee(): first and later iterators, and forks of a tee iterator that is fresh, part-way or exhausted"""
    inputs: dict[str, Callable[[], Any]] = {
        "sync[]": lambda: [],
        "sync[1]": lambda: [1],
        "sync[1,0,2]": lambda: [1, 0, 2],
        "async-empty": lambda: _empty_async(),
    }
    for iname, mkin in inputs.items():
        for which in (0, 1):

            @cell(f"itertools.tee[iterator {which} of 2]<{iname}>", cancel=False)
            async def _(tg: Any, mkin: Any = mkin, which: int = which) -> Any:
                async def op() -> None:
                    async for _x in ait.tee(mkin(), 2)[which]:
                        pass

                return op, (lambda: 0), _noop

        for consumed in ("fresh", "one", "all"):

            @cell(f"itertools.tee[fork of a tee iterator, {consumed} consumed]<{iname}>", cancel=False)
            async def _(tg: Any, mkin: Any = mkin, consumed: str = consumed) -> Any:
                (parent,) = ait.tee(mkin(), 1)
                if consumed == "one":
                    try:
                        await anext(parent)
                    except StopAsyncIteration:
                        pass
                elif consumed == "all":
                    async for _x in parent:
                        pass

                async def op() -> None:
                    for fork in ait.tee(parent, 2):
                        async for _x in fork:
                            pass
                        break  # one full traversal of one fork is the operation

                return op, (lambda: 0), _noop


_register_tee()

# ------------------------------------------------------------------------- probes


async def probe_cell(name: str) -> dict[str, Any]:
    maker, want_cancel, want_yield = CELLS[name]
    out: dict[str, Any] = {"cell": name}
    async with create_task_group() as tg:
        if want_cancel:
            # the caller's scope is effectively cancelled in three shapes: the scope itself; the scope
            # itself while also shielded; an enclosing scope (inner scope plain)
            out["C_raised_cancel"] = True
            out["C_state_unchanged"] = True
            out["C_detail"] = ""
            for shape in ("own", "own+shield", "parent"):
                op, snap, cleanup = await maker(tg)
                before = snap()
                returned = False
                raised: str | None = None
                # an observer on the loop samples the state in every cycle while the call is in
                # progress: a refused operation must not change it even transiently
                seen: list[Any] = []
                watching = [True]
                loop = asyncio.get_running_loop()

                def watch(k: int = 0, snap: Any = snap, seen: list = seen, watching: list = watching) -> None:
                    if not watching[0] or k > 8:
                        return
                    try:
                        seen.append(snap())
                    except BaseException as e:  # noqa: BLE001
                        seen.append(("snapshot failed", repr(e)))
                    loop.call_soon(watch, k + 1)

                loop.call_soon(watch)
                with CancelScope(shield=(shape == "own+shield")) as sc:
                    sc.cancel()
                    try:
                        if shape == "parent":
                            with CancelScope():
                                await op()
                        else:
                            await op()
                        returned = True
                    except BaseException as e:
                        raised = type(e).__name__
                        raise
                watching[0] = False
                after = snap()
                odd = [x for x in seen if x != before]
                if odd:
                    out["C_state_unchanged"] = False
                    out["C_detail"] += f"[{shape}: an observer saw {odd[0]!r} during the call] "
                if returned or not sc.cancelled_caught:
                    out["C_raised_cancel"] = False
                if before != after:
                    out["C_state_unchanged"] = False
                out["C_detail"] += (f"[{shape}: returned={returned} raised={raised} before={before!r} "
                                    f"after={after!r}] ")
                try:
                    await cleanup()
                except BaseException as e:  # e.g. Condition lost its lock
                    out["C_state_unchanged"] = False
                    out["C_detail"] += f"[{shape}: cleanup failed: {e!r}] "
        if want_yield is not None:
            op, snap, cleanup = await maker(tg)
            flag: list[int] = []
            asyncio.get_running_loop().call_soon(flag.append, 1)
            try:
                await op()
            finally:
                out["Y_yielded"] = bool(flag)
            try:
                await cleanup()
            except BaseException:
                pass
        tg.cancel_scope.cancel()
    return out


def _eager_loop() -> asyncio.AbstractEventLoop:
    loop = asyncio.new_event_loop()
    loop.set_task_factory(asyncio.eager_task_factory)
    return loop


CONFIGS: dict[str, dict[str, Any]] = {
    "asyncio": {},
    "asyncio+eager": {"loop_factory": _eager_loop},
    "asyncio+uvloop": {"use_uvloop": True},
}


def run_matrix() -> list[dict[str, Any]]:
    rows = []
    for cfg, opts in CONFIGS.items():
        for name in CELLS:
            async def main(name: str = name) -> dict[str, Any]:
                with anyio.fail_after(20):
                    return await probe_cell(name)

            try:
                row = anyio.run(main, backend="asyncio", backend_options=opts)
            except BaseException as e:
                row = {"cell": name, "error": repr(e)}
            row["config"] = cfg
            rows.append(row)
    return rows


# ------------------------------------------------------------------------- model leg

from .c08_scripts import MODEL_SCRIPTS  # noqa: E402  cell -> (model, scripted requests->replies, yields?)


def model_leg(res: Result, rows: list[dict[str, Any]]) -> None:
    by_cell = {r["cell"]: r for r in rows if r.get("config") == "asyncio"}
    for name, (model, script, model_yields) in MODEL_SCRIPTS.items():
        reqs = [x.rsplit("->", 1)[0] for x in script]
        want = [x.rsplit("->", 1)[1] for x in script]
        got = run_model(model, reqs)
        res.evaluations += 1
        if got != want:
            res.disagreements.append(Disagreement({"cell": name, "script": script},
                                                  f"model {model} answered {got}, scripted {want}"))
            continue
        # what the script encodes vs what the real code did in the same cell
        row = by_cell.get(name, {})
        impl_yields = bool(row.get("Y_yielded"))
        if model_yields != impl_yields:
            res.disagreements.append(Disagreement({"cell": name},
                                                  f"model says yields={model_yields}, implementation {impl_yields}"))
        else:
            res.traces_validated += 1


# ------------------------------------------------------------------------- check


def run(ctx: Ctx) -> Result:
    res = Result(rule="complete enumeration of the operation x state matrix (each cell: probe in a "
                      "cancelled scope + probe for a yield) on asyncio, asyncio+eager, asyncio+uvloop; a "
                      "cell is non-trivial if it performed a probe on the real code; distinct = "
                      "(config, cell)", exhaustive=True)
    rows = run_matrix()
    summary: dict[str, int] = {}
    for row in rows:
        res.evaluations += 1
        name, cfg = row["cell"], row["config"]
        _, want_cancel, want_yield = CELLS[name]
        key = f"{cfg}:{name}"
        if "error" in row:
            res.violations.append(Violation({"cell": name, "config": cfg}, f"{key}: probe failed: {row['error']}",
                                            f"C08:{name}:error"))
            continue
        res.nontrivial.add(key)
        if want_cancel:
            if not row.get("C_raised_cancel"):
                res.violations.append(Violation({"cell": name, "config": cfg},
                                                f"{key}: no cancellation raised in a cancelled scope ({row.get('C_detail')})",
                                                f"C08:{name}:nocancel"))
            elif not row.get("C_state_unchanged"):
                res.violations.append(Violation({"cell": name, "config": cfg},
                                                f"{key}: effect performed before the cancellation check ({row.get('C_detail')})",
                                                f"C08:{name}:effect"))
        if want_yield and not row.get("Y_yielded"):
            res.violations.append(Violation({"cell": name, "config": cfg},
                                            f"{key}: returned without yielding to the event loop",
                                            f"C08:{name}:noyield"))
        summary[cfg] = summary.get(cfg, 0) + 1
    res.stats["cells_per_config"] = summary
    res.stats["cells"] = len(CELLS)
    res.samples = [r for r in rows if r.get("config") == "asyncio"][:6]
    model_leg(res, rows)
    return res


def replay(ctx: Ctx, case: Any) -> Result:
    return run(ctx)


if __name__ == "__main__":
    sys.exit(check_main("C08", run, replay=replay, models=["lock", "sem", "limiter", "cond", "event", "mem", "kernel"], level="proof",
                        technique_note="Lean theorems on the primitive and kernel models (cancellation "
                                       "check precedes the effect; a yield precedes the return) + complete "
                                       "enumeration of the operation x state matrix on the real code"))
