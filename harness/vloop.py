"""Deterministic virtual-time asyncio loop with a handle tracer.

`VLoop` is a `SelectorEventLoop` whose clock is virtual: when nothing is ready the clock
jumps to the earliest timer.  Every handle is labelled before it runs, so a run of a
program is a sequence of *labelled segments* (task step / wakeup, scope delivery, timer,
done-callback) -- the event list the Lean models replay.  When nothing is ready, no timer
is armed and `real_io` is off, the loop reports a deadlock instead of blocking.
"""

from __future__ import annotations

import asyncio
import heapq
from typing import Any, Callable

MAXIMUM_SELECT_TIMEOUT = 24 * 3600


class Deadlock(Exception):
    pass


class CycleBudgetExceeded(Exception):
    pass


def label_handle(handle: asyncio.Handle) -> tuple[str, Any]:
    """Classify a handle by the callback it will run."""
    cb = handle._callback  # type: ignore[attr-defined]
    owner = getattr(cb, "__self__", None)
    tname = type(cb).__name__
    if isinstance(owner, asyncio.Task):
        if tname == "TaskStepMethWrapper":
            return ("step", owner)
        name = getattr(cb, "__name__", "")
        if name in ("task_wakeup", "_Task__wakeup", "__wakeup"):
            return ("wakeup", owner)
        if name in ("_Task__step", "__step", "_Task__step_run_and_handle_result"):
            return ("step", owner)
        return ("taskcb:" + name, owner)
    qual = getattr(cb, "__qualname__", "") or ""
    if qual == "CancelScope._deliver_cancellation":
        return ("deliver", owner)
    if qual == "CancelScope._timeout":
        return ("timeout", owner)
    args = handle._args  # type: ignore[attr-defined]
    if qual.endswith("task_done"):
        return ("taskdone", args[0] if args else None)
    # structural fallbacks, so that renaming those private callbacks does not change the labelling:
    # a bound method of an AnyIO cancel scope is its deadline timer when scheduled with call_at and
    # its delivery callback when scheduled with call_soon; a plain function of the asyncio backend
    # module called with a finished task is that task's done-callback
    try:
        from anyio._backends._asyncio import CancelScope as _CS
    except Exception:  # noqa: BLE001
        _CS = ()  # type: ignore[assignment]
    if _CS and isinstance(owner, _CS):
        return ("timeout" if isinstance(handle, asyncio.TimerHandle) else "deliver", owner)
    if (owner is None and args and isinstance(args[0], asyncio.Task) and args[0].done()
            and getattr(cb, "__module__", "") == "anyio._backends._asyncio"):
        return ("taskdone", args[0])
    return ("other", qual or repr(cb))


class VLoop(asyncio.SelectorEventLoop):
    def __init__(
        self,
        *,
        real_io: bool = False,
        max_cycles: int = 200_000,
        on_handle: Callable[[str, Any, asyncio.Handle], None] | None = None,
        after_handle: Callable[[str, Any, asyncio.Handle], None] | None = None,
        on_cycle: Callable[[int], None] | None = None,
    ) -> None:
        super().__init__()
        self._vtime = 0.0
        self.real_io = real_io
        self.cycle = 0
        self.max_cycles = max_cycles
        self.on_handle = on_handle
        self.after_handle = after_handle
        self.on_cycle = on_cycle
        self.deadlocked = False
        self.handles_run = 0
        # make timers exact on the virtual clock
        self._clock_resolution = 1e-9

    def time(self) -> float:
        return self._vtime

    # Mirrors asyncio.base_events.BaseEventLoop._run_once of CPython 3.12 with a
    # virtual clock and per-handle hooks.
    def _run_once(self) -> None:  # noqa: C901
        self.cycle += 1
        if self.cycle > self.max_cycles:
            raise CycleBudgetExceeded(self.cycle)

        while self._scheduled and self._scheduled[0]._cancelled:
            self._timer_cancelled_count -= 1
            handle = heapq.heappop(self._scheduled)
            handle._scheduled = False

        timeout: float | None = None
        if self._ready or self._stopping:
            timeout = 0
        elif self._scheduled:
            when = self._scheduled[0]._when
            if self.real_io:
                timeout = 0
            else:
                timeout = 0
            if when > self._vtime:
                self._vtime = when
        elif not self.real_io:
            self.deadlocked = True
            raise Deadlock()
        else:
            timeout = 0.05

        event_list = self._selector.select(timeout)
        self._process_events(event_list)
        event_list = None

        end_time = self._vtime + self._clock_resolution
        while self._scheduled:
            handle = self._scheduled[0]
            if handle._when >= end_time:
                break
            handle = heapq.heappop(self._scheduled)
            handle._scheduled = False
            self._ready.append(handle)

        if self.on_cycle is not None:
            self.on_cycle(self.cycle)

        ntodo = len(self._ready)
        for _ in range(ntodo):
            handle = self._ready.popleft()
            if handle._cancelled:
                continue
            self.handles_run += 1
            if self.on_handle is not None or self.after_handle is not None:
                kind, who = label_handle(handle)
                if self.on_handle is not None:
                    self.on_handle(kind, who, handle)
                handle._run()
                if self.after_handle is not None:
                    self.after_handle(kind, who, handle)
            else:
                handle._run()
        handle = None

    def live_timers(self) -> int:
        return sum(1 for h in self._scheduled if not h._cancelled)

    def pending_ready(self) -> int:
        return sum(1 for h in self._ready if not h._cancelled)


def run(main_factory: Callable[[], Any], *, eager: bool = False, **kw: Any) -> Any:
    """Run ``main_factory()`` (a coroutine) on a fresh VLoop; returns (result, loop)."""
    loop = VLoop(**kw)
    if eager:
        loop.set_task_factory(asyncio.eager_task_factory)
    try:
        asyncio.set_event_loop(loop)
        result = loop.run_until_complete(main_factory())
        return result, loop
    finally:
        try:
            # drop whatever is left without running it
            loop._ready.clear()
            loop._scheduled.clear()
        finally:
            asyncio.set_event_loop(None)
            loop.close()
