"""Shared harness for C12 / C13 (memory object streams): adapter for the Lean model `mem`,
bench subclass, case generator, and the two oracles (written from the property texts, not
from the model).

Case format (see harness/bench.py): {"cfg": {"max": 0|1|2|"inf", "native": bool},
"scripts": [[op, ...], ...]} with the ops

  ["send", h, x] ["send_nowait", h, x] ["receive", h] ["receive_nowait", h]
  ["close_s", h] ["close_r", h] ["aclose_s", h] ["aclose_r", h] ["clone_s", h] ["clone_r", h]
  ["yield"] ["cancel", j] ["ncancel", j]            (+ trailing "pre" on send / receive)

`h` is a handle number, taken modulo the number of handles of that side that exist when the
call is made (handle 0 is the one `create_memory_object_stream` returns, `clone()` appends);
`x` is the item, a unique integer.
"""

from __future__ import annotations

import asyncio
import math
import random
import re
from typing import Any

import anyio
from anyio import CancelScope
from anyio._backends._asyncio import AsyncIOTaskInfo

from .bench import Adapter, Bench, compare
from .common import Disagreement, Result, Violation, run_model

SEND_OPS = ("send", "send_nowait")
RECV_OPS = ("receive", "receive_nowait")


def max_of(cfg: dict) -> float:
    return math.inf if cfg["max"] == "inf" else int(cfg["max"])


class MemAdapter(Adapter):
    model = "mem"

    def new_line(self, cfg: Any) -> str:
        return f"new {cfg['max']}"

    def setup(self, cfg: Any, bench: Bench) -> None:
        self.bench = bench
        s, r = anyio.create_memory_object_stream(max_of(cfg))
        self.S = [s]
        self.R = [r]
        self.resolved: dict[int, int] = {}

    def pending(self) -> str:
        """tasks inside a receive for which TaskInfo.has_pending_cancellation() is true now"""
        b = self.bench
        out = []
        for j, task in enumerate(b.tasks):
            if task is None or task.done() or not b.in_op[j] or b.cur[j] not in RECV_OPS:
                continue
            if AsyncIOTaskInfo(task).has_pending_cancellation():
                out.append(j)
                w = task._fut_waiter  # type: ignore[attr-defined]
                if w is not None and not w.done():
                    b.pend_without_fc += 1  # blocked, reported pending, future not (yet) cancelled
        return ",".join(map(str, out)) if out else "-"

    def fmt(self, t: int, op: list, pre: bool) -> str:
        name = op[0]
        side = self.S if name in ("send", "send_nowait", "close_s", "aclose_s", "clone_s") else self.R
        h = op[1] % len(side)
        self.resolved[t] = h
        self.bench.cur[t] = name
        self.bench.curh[t] = h
        if name == "send":
            return f"send {t} {h} {op[2]} {int(pre)}"
        if name == "send_nowait":
            return f"send_nowait {t} {h} {op[2]} {self.pending()}"
        if name == "receive":
            return f"receive {t} {h} {int(pre)}"
        if name == "receive_nowait":
            return f"receive_nowait {t} {h}"
        if name in ("close_s", "aclose_s"):
            return f"close_s {t} {h}"
        if name in ("close_r", "aclose_r"):
            return f"close_r {t} {h}"
        if name in ("clone_s", "clone_r"):
            return f"{name} {t} {h}"
        raise ValueError(op)

    def call(self, t: int, op: list) -> Any:
        name = op[0]
        h = self.resolved[t]
        if name == "send":
            return self.S[h].send(op[2])
        if name == "send_nowait":
            return self.S[h].send_nowait(op[2])
        if name == "receive":
            return self.R[h].receive()
        if name == "receive_nowait":
            return ("item", self.R[h].receive_nowait())
        if name == "close_s":
            return self.S[h].close()
        if name == "close_r":
            return self.R[h].close()
        if name == "aclose_s":
            return self.S[h].aclose()
        if name == "aclose_r":
            return self.R[h].aclose()
        if name == "clone_s":
            self.S.append(self.S[h].clone())
            return ("handle", len(self.S) - 1)
        if name == "clone_r":
            self.R.append(self.R[h].clone())
            return ("handle", len(self.R) - 1)
        raise ValueError(op)

    def ok(self, t: int, op: list, value: Any) -> str:
        if op[0] == "receive":
            return f"item {value}"
        if isinstance(value, tuple):
            return f"{value[0]} {value[1]}"
        return "ret"

    def exc(self, t: int, op: list, e: BaseException) -> str:
        if isinstance(e, anyio.ClosedResourceError):
            return "closed"
        if isinstance(e, anyio.BrokenResourceError):
            return "broken"
        if isinstance(e, anyio.EndOfStream):
            return "eos"
        return super().exc(t, op, e)

    def obs(self) -> str:
        st = self.S[0].statistics()
        mx = "inf" if st.max_buffer_size == math.inf else str(int(st.max_buffer_size))
        return (f"used={st.current_buffer_used} max={mx} os={st.open_send_streams} "
                f"or={st.open_receive_streams} ws={st.tasks_waiting_send} wr={st.tasks_waiting_receive}")


class MemBench(Bench):
    """Bench whose `step` lines carry the environment's has_pending_cancellation() reading and
    whose history (`events`) tells scope from native cancellations and records when an
    operation started to wait.

    events: ("call", t, op, pre) ("op", t, op, out) ("blocked", t, None, "")
            ("cancel", j, kind, handover) ("obs", -1, None, text)
    """

    def __init__(self, adapter: Adapter, case: dict, **kw: Any):
        super().__init__(adapter, case, **kw)
        self.cur: list[str | None] = [None] * self.n
        self.curh: list[int] = [0] * self.n
        self.pend_without_fc = 0

    def on_handle(self, kind: str, who: Any, handle: Any) -> None:
        if kind in ("step", "wakeup") and isinstance(who, asyncio.Task):
            t = self.index.get(id(who))
            if t is not None and self.in_op[t]:
                self.open[t] = self.emit(f"step {t} {self.adapter.pending()}", None)  # type: ignore[attr-defined]
                self.fc_seen[t] = False
                self.mc_seen[t] = False

    def after_handle(self, kind: str, who: Any, handle: Any) -> None:
        for t in range(self.n):
            i = self.open[t]
            if i is not None and self.lines[i][0].startswith("step"):
                self.events.append(("blocked", t, None, ""))
        super().after_handle(kind, who, handle)

    def note(self, j: int, kind: str) -> None:
        self.cancel_hits += 1
        tj = self.tasks[j]
        w = tj._fut_waiter if tj is not None else None  # type: ignore[attr-defined]
        handover = bool(w is not None and w.done() and not w.cancelled())
        if handover:
            self.handover_cancels += 1
        self.events.append(("cancel", j, kind, handover))

    async def task_main(self, t: int) -> None:  # copy of Bench.task_main with richer events
        me = asyncio.current_task()
        assert me is not None
        self.tasks[t] = me
        self.index[id(me)] = t
        for op in self.case["scripts"][t]:
            kind = op[0]
            if kind == "yield":
                await asyncio.sleep(0)
                continue
            if kind == "cancel":
                j = op[1] % self.n
                sc = self.scope[j]
                if j != t and sc is not None and self.in_op[j]:
                    self.note(j, "scope")
                    sc.cancel()
                    self.scan()
                continue
            if kind == "ncancel":
                j = op[1] % self.n
                tj = self.tasks[j]
                if j != t and tj is not None and self.in_op[j] and not tj.done():
                    self.note(j, "native")
                    tj.cancel()
                    self.scan()
                continue
            pre = op[-1] == "pre"
            core = op[:-1] if pre else op
            out = "?"
            try:
                with CancelScope() as sc:
                    self.scope[t] = sc
                    if pre:
                        sc.cancel()
                    self.open[t] = self.emit(self.adapter.fmt(t, core, pre), None)
                    core = [core[0], self.curh[t]] + list(core[2:])  # handle resolved
                    self.events.append(("call", t, core, "pre" if pre else ""))
                    self.fc_seen[t] = self.mc_seen[t] = False
                    self.in_op[t] = True
                    try:
                        r = self.adapter.call(t, core)
                        if hasattr(r, "__await__"):
                            r = await r
                        out = self.adapter.ok(t, core, r)
                    except BaseException as e:
                        out = self.adapter.exc(t, core, e)
                        raise
                    finally:
                        self.in_op[t] = False
                        self.set_outcome(t, out)
                        self.events.append(("op", t, core, out))
            except asyncio.CancelledError:
                me.uncancel()
            except Exception:
                pass
            finally:
                self.scope[t] = None


# --------------------------------------------------------------------------- generator


def gen_case(rng: random.Random, tier: str, flavor: str) -> dict:
    """flavor "deliver": long send/receive flows with cancellations; "close": more clone/close."""
    quick = tier == "quick"
    n = rng.randint(2, 5 if quick else 7)
    native = rng.random() < 0.25
    mx = rng.choice([0, 0, 1, 1, 2, "inf"])
    max_h = 3 if quick else 4
    roles = [rng.choice("srm") for _ in range(n)]
    if "s" not in roles and "m" not in roles:
        roles[0] = "s"
    if "r" not in roles and "m" not in roles:
        roles[-1] = "r"
    item = [0]

    def fresh() -> int:
        item[0] += 1
        return item[0]

    p_close = 0.10 if flavor == "close" else 0.02
    p_clone = 0.08 if flavor == "close" else 0.02
    p_cancel = 0.12
    ns, nr = rng.randint(1, max_h), rng.randint(1, max_h)
    scripts: list[list[list]] = []
    for t in range(n):
        ops: list[list] = []
        role = roles[t]
        # initial clones so that several handles exist before the traffic starts
        if t == 0:
            ops += [["clone_s", 0] for _ in range(ns - 1)] + [["clone_r", 0] for _ in range(nr - 1)]
        others = [j for j in range(n) if j != t]
        myh = {"s": t % ns, "r": t % nr}
        for _ in range(rng.randint(1, 6 if quick else 9)):
            r = rng.random()
            side = role if role != "m" else rng.choice("sr")
            h = myh[side] if rng.random() < 0.85 else rng.randrange(max_h)
            if r < p_close:
                ops.append([rng.choice(["close", "close", "aclose"]) + "_" + side, h])
            elif r < p_close + p_clone:
                ops.append(["clone_" + side, h])
            elif r < 0.66:
                pre = ["pre"] if rng.random() < 0.03 else []
                if side == "s":
                    if rng.random() < 0.72:
                        ops.append(["send", h, fresh()] + pre)
                    else:
                        ops.append(["send_nowait", h, fresh()])
                else:
                    if rng.random() < 0.72:
                        ops.append(["receive", h] + pre)
                    else:
                        ops.append(["receive_nowait", h])
            elif r < 1 - p_cancel:
                ops += [["yield"]] * rng.randint(1, 3)
            else:
                # cancellation, often glued to a *_nowait call in the same segment (both orders):
                # this is what lands in the hand-over cycle
                ops += [["yield"]] * rng.randint(0, 3)
                c = ["ncancel" if (native and rng.random() < 0.6) else "cancel", rng.choice(others)]
                glue = rng.random()
                hs, hr = myh["s"], myh["r"]
                if glue < 0.25:
                    ops += [["send_nowait", hs, fresh()], c]
                elif glue < 0.5:
                    ops += [c, ["send_nowait", hs, fresh()]]
                elif glue < 0.6:
                    ops += [["receive_nowait", hr], c]
                elif glue < 0.7:
                    ops += [c, ["receive_nowait", hr]]
                else:
                    ops.append(c)
        if rng.random() < (0.8 if flavor == "close" else 0.5):
            if role in "sm":
                ops.append(["close_s", myh["s"]])
            if role in "rm" and rng.random() < 0.6:
                ops.append(["close_r", myh["r"]])
        scripts.append(ops)
    return {"cfg": {"max": mx, "native": native}, "scripts": scripts}


def directed_cases() -> list[dict]:
    """Small hand-written histories that hit the windows the properties name; always run."""
    out = []
    for mx in (0, 1, 2, "inf"):
        for canc in ("cancel", "ncancel"):
            nat = canc == "ncancel"
            # receiver blocked; item handed over and cancellation in the same segment, both orders
            out.append({"cfg": {"max": mx, "native": nat}, "scripts": [
                [["receive", 0], ["receive_nowait", 0]],
                [["yield"], ["yield"], ["send_nowait", 0, 1], [canc, 0], ["send_nowait", 0, 2], ["yield"],
                 ["yield"], ["close_s", 0]]]})
            out.append({"cfg": {"max": mx, "native": nat}, "scripts": [
                [["receive", 0], ["receive_nowait", 0]],
                [["yield"], ["yield"], [canc, 0], ["send_nowait", 0, 1], ["send_nowait", 0, 2], ["yield"],
                 ["yield"], ["close_s", 0]]]})
            # two receivers blocked, first one cancelled in the hand-over segment
            out.append({"cfg": {"max": mx, "native": nat}, "scripts": [
                [["receive", 0]], [["receive", 0]],
                [["yield"], ["yield"], [canc, 0], ["send_nowait", 0, 1], ["send_nowait", 0, 2],
                 ["send_nowait", 0, 3]],
                [["yield"], ["yield"], ["yield"], ["yield"], ["receive_nowait", 0], ["receive_nowait", 0]]]})
            # blocked sender cancelled in the segment that pulls its item
            out.append({"cfg": {"max": mx, "native": nat}, "scripts": [
                [["send", 0, 1], ["send", 0, 2], ["send", 0, 3], ["send", 0, 4]],
                [["yield"], ["yield"], ["yield"], ["yield"], [canc, 0], ["receive_nowait", 0], ["yield"],
                 ["receive_nowait", 0], [canc, 0], ["yield"], ["receive_nowait", 0], ["receive_nowait", 0],
                 ["receive_nowait", 0]]]})
        # closes while peers are blocked, clones outstanding
        out.append({"cfg": {"max": mx, "native": False}, "scripts": [
            [["clone_s", 0], ["receive", 0]], [["receive", 0]],
            [["yield"], ["yield"], ["close_s", 0], ["yield"], ["yield"], ["close_s", 1]]]})
        out.append({"cfg": {"max": mx, "native": False}, "scripts": [
            [["clone_r", 0], ["send", 0, 1], ["send", 0, 2], ["send", 0, 3]], [["yield"], ["send", 0, 4]],
            [["yield"], ["yield"], ["yield"], ["yield"], ["close_r", 0], ["yield"], ["yield"], ["close_r", 1],
             ["yield"], ["clone_r", 1], ["receive_nowait", 1]]]})
        out.append({"cfg": {"max": mx, "native": False}, "scripts": [
            [["send_nowait", 0, 1], ["send_nowait", 0, 2], ["close_s", 0], ["send_nowait", 0, 3],
             ["clone_s", 0]],
            [["yield"], ["receive", 0], ["receive", 0], ["receive", 0], ["close_r", 0], ["receive", 0]]]})
    return out


# --------------------------------------------------------------------------- oracles


def parse_obs(text: str) -> dict[str, str]:
    return dict(kv.split("=") for kv in text.split())


def oracle_c12(b: MemBench) -> tuple[str | None, dict]:
    """C12 on the real code's history.  Returns (violation or None, info)."""
    cfg = b.case["cfg"]
    mx = max_of(cfg)
    sender: dict[int, int] = {}  # item -> task that offered it
    seq: dict[int, int] = {}  # item -> position in its sender's offers
    nsent: dict[int, int] = {}
    sstate: dict[int, str] = {}  # item -> inflight | ret | cancelled | wouldblock | closed | broken
    delivered: list[int] = []
    dset: set[int] = set()
    last_pair: dict[tuple[int, int], int] = {}
    inop: dict[int, list] = {}  # task -> op in flight
    rwait: list[int] = []  # receivers in the order they started waiting
    swait: list[int] = []
    hit: set[int] = set()  # tasks on which a cancellation was issued during the op in flight
    native_handover_recv: set[int] = set()  # receive ops hit natively after the hand-over
    allowance = 0
    last_obs: dict[str, str] | None = None
    for ev in b.events:
        kind, t = ev[0], ev[1]
        if kind == "obs":
            last_obs = f = parse_obs(ev[3])
            used = int(f["used"])
            if used > mx:
                return f"buffer holds {used} items, max_buffer_size is {cfg['max']}", {}
            room = sum(1 for x, st in sstate.items() if x not in dset and st in ("inflight", "ret", "cancelled"))
            if used > room:
                return f"buffer holds {used} items but only {room} offered items can be in it (invented item)", {}
        elif kind == "call":
            op = ev[2]
            inop[t] = op
            hit.discard(t)
            native_handover_recv.discard(t)
            if op[0] in SEND_OPS:
                x = op[2]
                sender[x] = t
                nsent[t] = nsent.get(t, 0) + 1
                seq[x] = nsent[t]
                sstate[x] = "inflight"
        elif kind == "blocked":
            op = inop.get(t)
            if op is None:
                continue
            if op[0] == "receive" and t not in rwait:
                rwait.append(t)
            if op[0] == "send" and t not in swait:
                swait.append(t)
        elif kind == "cancel":
            hit.add(t)
            op = inop.get(t)
            if ev[2] == "native" and ev[3] and op is not None and op[0] == "receive":
                native_handover_recv.add(t)
        elif kind == "op":
            op, out = ev[2], ev[3]
            inop.pop(t, None)
            if op[0] in SEND_OPS:
                x = op[2]
                sstate[x] = out
                if out == "ret" and t in swait:
                    ahead = [u for u in swait[: swait.index(t)] if u not in hit]
                    if ahead:
                        return (f"blocked senders served out of order: task {t}'s send completed while "
                                f"earlier blocked senders {ahead} still wait"), {}
                if t in swait:
                    swait.remove(t)
                if out in ("wouldblock", "closed", "broken") and x in dset:
                    return f"item {x} was delivered although its send raised {out}", {}
            elif op[0] in RECV_OPS:
                if out.startswith("item "):
                    x = int(out.split()[1])
                    if x not in sender:
                        return f"receive returned {x}, which was never sent (invented)", {}
                    if x in dset:
                        return f"item {x} delivered twice", {}
                    if sstate[x] in ("wouldblock", "closed", "broken"):
                        return f"item {x} delivered although its send raised {sstate[x]}", {}
                    key = (sender[x], t)
                    if last_pair.get(key, 0) > seq[x]:
                        return (f"items of sender {sender[x]} reach receiver {t} out of order "
                                f"(#{seq[x]} after #{last_pair[key]})"), {}
                    last_pair[key] = seq[x]
                    delivered.append(x)
                    dset.add(x)
                    if t in rwait:
                        ahead = [u for u in rwait[: rwait.index(t)] if u not in hit]
                        if ahead:
                            return (f"blocked receivers served out of order: task {t} got item {x} "
                                    f"while earlier blocked receivers {ahead} still wait"), {}
                if out == "cancelled" and t in native_handover_recv:
                    allowance += 1
                if t in rwait:
                    rwait.remove(t)
            hit.discard(t)
    info = {"native_losses": 0}
    if last_obs is not None and not b.error:
        used = int(last_obs["used"])
        missing = [x for x, st in sstate.items() if st == "ret" and x not in dset]
        maybe = [x for x, st in sstate.items() if st == "cancelled" and x not in dset]
        if used > len(missing) + len(maybe):
            return (f"at the end the buffer holds {used} items but only {len(missing) + len(maybe)} "
                    f"undelivered items were accepted"), {}
        lostn = len(missing) - used
        if lostn > allowance:
            return (f"{lostn} item(s) lost: sends of {sorted(missing)} completed, none was received, "
                    f"buffer holds {used}" + (f" ({allowance} explained by native cancellation after hand-over)"
                                               if allowance else "")), {}
        if lostn > 0:
            info["native_losses"] = lostn
        if b.deadlock and used > 0:
            stuck = [u for u in rwait if u not in hit]
            if stuck:
                return f"receivers {stuck} wait forever although the buffer holds {used} item(s)", {}
    return None, info


def oracle_c13(b: MemBench) -> str | None:
    """C13 on the real code's history: exception types vs. the true open/closed state, counts,
    nobody left blocked."""
    closed = {"s": set(), "r": set()}
    count = {"s": 1, "r": 1}
    inop: dict[int, list] = {}
    checked: dict[int, bool] = {}
    was_blocked: dict[int, bool] = {}
    eos_seen = False
    eos_pending_check = False
    blocked_senders_at_eos: set[int] = set()

    def n_open(side: str) -> int:
        return count[side] - len(closed[side])

    def side_of(name: str) -> str:
        return "s" if name in ("send", "send_nowait", "close_s", "aclose_s", "clone_s") else "r"

    calls_after_eos: set[int] = set()
    got: set[int] = set()
    for ev in b.events:
        kind, t = ev[0], ev[1]
        if kind == "obs":
            f = parse_obs(ev[3])
            if int(f["os"]) != n_open("s"):
                return f"open_send_streams={f['os']} but {n_open('s')} send clones are open"
            if int(f["or"]) != n_open("r"):
                return f"open_receive_streams={f['or']} but {n_open('r')} receive clones are open"
            if eos_pending_check:
                eos_pending_check = False
                if f["used"] != "0" or f["ws"] != "0":
                    return f"EndOfStream raised but items remain: {ev[3]}"
        elif kind == "call":
            op = ev[2]
            inop[t] = op
            checked[t] = False
            was_blocked[t] = False
            if eos_seen and op[0] in RECV_OPS:
                calls_after_eos.add(t)
            else:
                calls_after_eos.discard(t)
        elif kind == "blocked":
            op = inop.get(t)
            if op is None:
                continue
            if not checked[t]:
                checked[t] = True
                if op[1] in closed[side_of(op[0])]:
                    return f"{op[0]} on closed handle {op[1]} started to wait instead of raising ClosedResourceError"
            was_blocked[t] = True
        elif kind == "op":
            op, out = ev[2], ev[3]
            name = op[0]
            sd = side_of(name)
            inop.pop(t, None)
            h = op[1]
            if out == "closed":
                if h not in closed[sd]:
                    return f"{name} raised ClosedResourceError on handle {h}, which is open"
            elif out != "cancelled" and not checked.get(t, True) and name not in ("close_s", "close_r", "aclose_s", "aclose_r"):
                if h in closed[sd]:
                    return f"{name} on closed handle {h} did not raise ClosedResourceError (outcome {out})"
            checked[t] = True
            if out == "eos":
                if n_open("s") != 0:
                    return f"{name} raised EndOfStream while {n_open('s')} send clones are open"
                eos_seen = True
                eos_pending_check = True
                # senders that wait and whose item no receive has returned so far
                blocked_senders_at_eos |= {u for u, o in inop.items()
                                           if o[0] == "send" and was_blocked.get(u) and o[2] not in got}
            if out == "broken":
                if n_open("r") != 0:
                    return f"{name} raised BrokenResourceError while {n_open('r')} receive clones are open"
            if out.startswith("item "):
                got.add(int(out.split()[1]))
            if out.startswith("item ") and t in calls_after_eos:
                return f"{name} returned an item after another receive had raised EndOfStream"
            if out == "ret" and name == "send" and t in blocked_senders_at_eos:
                return "EndOfStream was raised while a blocked sender's item was still pending"
            blocked_senders_at_eos.discard(t)
            if name in ("close_s", "close_r", "aclose_s", "aclose_r") and out == "ret":
                closed[sd].add(h)
            if out.startswith("handle "):
                count[sd] += 1
    if b.deadlock and not b.error:
        for t, op in inop.items():
            if op[0] == "receive" and n_open("s") == 0:
                return f"task {t} stays blocked in receive() although every send clone is closed"
            if op[0] == "send" and n_open("r") == 0:
                return f"task {t} stays blocked in send() although every receive clone is closed"
    return None


# --------------------------------------------------------------------------- running


def classify(b: MemBench) -> dict[str, bool]:
    blocked = any(r.startswith("step") and o == "susp" for r, o in b.lines)
    cancelled = any(r.startswith(("fc", "mc")) for r, _ in b.lines)
    err = any(o in ("eos", "broken", "closed") for _, o in b.lines)
    close_while_blocked = False
    waiting = False
    for r, o in b.lines:
        if r == "obs":
            f = parse_obs(o)
            waiting = f["ws"] != "0" or f["wr"] != "0"
        elif r.startswith("close") and waiting:
            close_while_blocked = True
    return {"blocked": blocked, "cancelled": cancelled, "err": err, "cwb": close_while_blocked}


def run_cases(prop: str, cases: list[dict], res: Result) -> None:
    benches: list[MemBench] = []
    all_lines: list[str] = []
    for case in cases:
        b = MemBench(MemAdapter(), case).run()
        benches.append(b)  # type: ignore[arg-type]
        all_lines += [r for r, _ in b.lines]
    replies = run_model("mem", all_lines)
    pos = 0
    st = res.stats.setdefault("outcomes", {})
    streams = res.stats.setdefault("streams", {})
    for case, b in zip(cases, benches):
        rep = replies[pos: pos + len(b.lines)]
        pos += len(b.lines)
        res.evaluations += 1
        for r, o in b.lines:
            k = "obs" if r == "obs" else r.split()[0] + ":" + o.split()[0]
            st[k] = st.get(k, 0) + 1
        native = bool(case["cfg"].get("native"))
        sk = "native_cancel_cases" if native else "scope_only_cases"
        streams[sk] = streams.get(sk, 0) + 1
        mk = f"max={case['cfg']['max']}"
        streams[mk] = streams.get(mk, 0) + 1
        for key, v in (("handover_cancels", b.handover_cancels), ("deadlocks", int(b.deadlock)),
                       ("pend_without_fc", b.pend_without_fc)):
            res.stats[key] = res.stats.get(key, 0) + v
        if b.error:
            res.violations.append(Violation(case, b.error, "harness:" + b.error[:30]))
            continue
        cl = classify(b)
        if prop == "C12":
            bad, info = oracle_c12(b)
            if info.get("native_losses"):
                # scoping decision DESIGN section 4: information, not a violation
                res.stats["native_handover_losses"] = res.stats.get("native_handover_losses", 0) + info["native_losses"]
            nontrivial = cl["blocked"] or cl["cancelled"]
        else:
            bad = oracle_c13(b)
            nontrivial = cl["err"] or cl["cwb"]
        if bad:
            sig = re.sub(r"\d+|\[[^\]]*\]", "N", bad.split(":")[0])[:60]
            res.violations.append(Violation(case, bad, prop + ":" + sig))
        d = compare(b.lines, rep)
        if d:
            res.disagreements.append(Disagreement(case, d[1]))
        else:
            res.traces_validated += 1
        if nontrivial:
            res.nontrivial.add(hash(tuple((r, o) for r, o in b.lines if r != "obs")))
            if len(res.samples) < 4:
                res.samples.append({"case": case, "trace": [f"{r} -> {o}" for r, o in b.lines[:16]]})
