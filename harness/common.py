"""Shared machinery of every check: Lean build + audit, model driver, verdict rules
(DESIGN section 7), evidence and replay files."""

from __future__ import annotations

import json
import os
import random
import re
import subprocess
import sys
import time
from dataclasses import dataclass, field
from pathlib import Path
from typing import Any, Callable

ROOT = Path(__file__).resolve().parent.parent
LEAN = ROOT / "lean"
BIN = LEAN / ".lake" / "build" / "bin"
EVIDENCE = ROOT / "evidence"
if os.environ.get("ANYIO_REPO", "/repo").rstrip("/") != "/repo":
    # a run against a scratch copy (seeded change): its evidence must not replace the committed
    # evidence, which describes runs against /repo itself
    EVIDENCE = ROOT / "replays" / "scratch-evidence"
REPLAYS = ROOT / "replays"
CORPUS = ROOT / "corpus"
REPO = Path(os.environ.get("ANYIO_REPO", "/repo"))

ALLOWED_AXIOMS = {"propext", "Classical.choice", "Quot.sound"}
FORBIDDEN = re.compile(
    r"\bsorry\b|\badmit\b|^\s*axiom\s|\bnative_decide\b|\bbv_decide\b|implemented_by|"
    r"\bunsafe\s|maxHeartbeats\s+0\b",
    re.M,
)

TRUSTED_BASE = [
    "Lean 4.33.0 kernel; every C*_ theorem depends only on propext, Classical.choice, Quot.sound "
    "(checked by #print axioms on every run); no sorry/admit/axiom/native_decide/bv_decide",
    "hand-written Lean models of the anchored AnyIO code (lean/AnyioModel/**), tied to /repo by "
    "the correspondence check of this run (sampling: trace validation against the real code)",
    "the Python harness: virtual-time loop and handle tracer (harness/vloop.py), generators, "
    "canonicaliser and the independent oracles written from the property text",
    "CPython 3.12 asyncio (Task/Future/Event, FIFO ready queue) as transcribed in the models",
]


# --------------------------------------------------------------------------- build/audit


def strip_comments(src: str) -> str:
    out = []
    i, n, depth = 0, len(src), 0
    while i < n:
        if src.startswith("/-", i):
            depth += 1
            i += 2
        elif depth and src.startswith("-/", i):
            depth -= 1
            i += 2
        elif depth:
            if src[i] == "\n":
                out.append("\n")
            i += 1
        elif src.startswith("--", i):
            while i < n and src[i] != "\n":
                i += 1
        else:
            out.append(src[i])
            i += 1
    return "".join(out)


def lake_build(targets: list[str]) -> tuple[bool, str]:
    """Build only what this property needs (its Props module and its model drivers), so that
    a broken file of another property cannot disturb this check."""
    p = subprocess.run(
        ["lake", "build", *targets], cwd=LEAN, capture_output=True, text=True, timeout=3000
    )
    return p.returncode == 0, (p.stdout + p.stderr)[-6000:]


def prop_files(prop: str) -> list[Path]:
    """Props/Cxx.lean plus companions Props/Cxx<suffix>.lean (e.g. C04pure.lean)"""
    d = LEAN / "AnyioModel" / "Props"
    return sorted(f for f in d.glob(f"{prop}*.lean") if re.fullmatch(rf"{prop}([a-z_][a-z_0-9]*)?", f.stem))


def prop_theorems(prop: str) -> list[tuple[str, str, str]]:
    """(module, namespace, theorem name) for every `theorem Cxx_*` of the property's files"""
    out = []
    for f in prop_files(prop):
        src = strip_comments(f.read_text())
        ns = re.findall(r"^namespace\s+(\S+)", src, re.M)
        for t in re.findall(rf"^\s*theorem\s+({prop}_\w+)", src, re.M):
            out.append((f"AnyioModel.Props.{f.stem}", ns[0] if ns else "", t))
    return out


def import_closure(module: str) -> list[Path]:
    """project files the module depends on (transitively), found by reading `import` lines"""
    seen: dict[str, Path] = {}
    todo = [module]
    while todo:
        mod = todo.pop()
        if mod in seen:
            continue
        f = LEAN / (mod.replace(".", "/") + ".lean")
        if not f.exists():
            continue
        seen[mod] = f
        for m in re.finditer(r"^import\s+(\S+)", strip_comments(f.read_text()), re.M):
            if m.group(1).startswith(("AnyioModel", "Driver")):
                todo.append(m.group(1))
    return sorted(seen.values())


def audit(prop: str) -> dict[str, Any]:
    """grep for forbidden constructs in all of lean/, then #print axioms for the property's
    theorems."""
    problems: list[str] = []
    closure: dict[Path, None] = {}
    for pf in prop_files(prop):
        for f in import_closure(f"AnyioModel.Props.{pf.stem}"):
            closure[f] = None
    for f in closure:
        m = FORBIDDEN.search(strip_comments(f.read_text()))
        if m:
            problems.append(f"{f.relative_to(LEAN)}: forbidden construct {m.group(0).strip()!r}")
    triples = prop_theorems(prop)
    thms = [t for _, _, t in triples]
    audited: dict[str, list[str]] = {}
    if thms:
        mods = sorted({m for m, _, _ in triples})
        body = "".join(f"import {m}\n" for m in mods) + "".join(
            f"#print axioms {ns + '.' if ns else ''}{t}\n" for _, ns, t in triples
        )
        tmp = LEAN / f".audit_{prop}_{os.getpid()}.lean"
        tmp.write_text(body)
        try:
            p = subprocess.run(
                ["lake", "env", "lean", tmp.name], cwd=LEAN, capture_output=True, text=True, timeout=900
            )
        finally:
            tmp.unlink(missing_ok=True)
        out = p.stdout + p.stderr
        # "'X' depends on axioms: [a, b]"  or "'X' does not depend on any axioms"
        for m in re.finditer(r"'([^']+)' depends on axioms: \[([^\]]*)\]", out, re.S):
            audited[m.group(1).split(".")[-1]] = [a.strip() for a in m.group(2).split(",")]
        for m in re.finditer(r"'([^']+)' does not depend on any axioms", out):
            audited[m.group(1).split(".")[-1]] = []
        if p.returncode != 0:
            problems.append("audit file failed to elaborate: " + out[-800:])
    clean = []
    for t in thms:
        if t not in audited:
            problems.append(f"theorem {t}: no #print axioms output")
        elif set(audited[t]) - ALLOWED_AXIOMS:
            problems.append(f"theorem {t}: depends on {sorted(set(audited[t]) - ALLOWED_AXIOMS)}")
        else:
            clean.append(t)
    return {
        "theorems": thms,
        "clean": clean,
        "partial": [t for t in thms if t.endswith("_partial")],
        "axioms": sorted({a for v in audited.values() for a in v}),
        "problems": problems,
    }


# --------------------------------------------------------------------------- model driver


def run_model(model: str, lines: list[str]) -> list[str]:
    """Pipe request lines to the compiled driver; one reply line per request line."""
    if not lines:
        return []
    p = subprocess.run(
        [str(BIN / f"md_{model}")], input="\n".join(lines) + "\n", capture_output=True, text=True,
        timeout=1200,
    )
    if p.returncode != 0:
        raise RuntimeError(f"modeld {model} exited {p.returncode}: {p.stderr[-500:]}")
    out = p.stdout.split("\n")
    if out and out[-1] == "":
        out.pop()
    if len(out) != len(lines):
        raise RuntimeError(f"modeld {model}: {len(lines)} requests, {len(out)} replies")
    return out


# --------------------------------------------------------------------------- results


@dataclass
class Disagreement:
    case: Any  # JSON-able description sufficient to replay
    detail: str  # first differing line etc.


@dataclass
class Violation:
    case: Any
    what: str  # what fails, in words (also the known-finding signature match text)
    signature: str = ""  # short stable key compared with known_findings.json


@dataclass
class Result:
    evaluations: int = 0
    traces_validated: int = 0
    nontrivial: set = field(default_factory=set)
    rule: str = ""
    samples: list = field(default_factory=list)
    disagreements: list[Disagreement] = field(default_factory=list)
    violations: list[Violation] = field(default_factory=list)
    stats: dict[str, Any] = field(default_factory=dict)
    exhaustive: bool = False
    extra_assumptions: list[str] = field(default_factory=list)

    def merge(self, other: "Result") -> None:
        self.evaluations += other.evaluations
        self.traces_validated += other.traces_validated
        self.nontrivial |= other.nontrivial
        self.samples += other.samples
        self.disagreements += other.disagreements
        self.violations += other.violations
        for k, v in other.stats.items():
            if isinstance(v, dict):
                d = self.stats.setdefault(k, {})
                for kk, vv in v.items():
                    d[kk] = d.get(kk, 0) + vv
            elif isinstance(v, (int, float)):
                self.stats[k] = self.stats.get(k, 0) + v
            else:
                self.stats[k] = v


@dataclass
class Ctx:
    prop: str
    tier: str
    seed: int
    rng: random.Random
    budget: float = 1.0  # multiplier used by the failing-input search
    focus: Any = None  # minimal diverging case handed to the search
    deadline: float = 0.0

    def n(self, quick: int, thorough: int) -> int:
        base = quick if self.tier == "quick" else thorough
        return max(1, int(base * self.budget))

    def time_left(self) -> float:
        return self.deadline - time.time()


def known_findings() -> dict[str, Any]:
    f = ROOT / "known_findings.json"
    return json.loads(f.read_text()) if f.exists() else {"open": [], "fixed": []}


_replay_counter = 0


def write_replay(prop: str, kind: str, payload: dict[str, Any]) -> Path:
    global _replay_counter
    _replay_counter += 1
    REPLAYS.mkdir(exist_ok=True)
    name = f"{prop}_{kind}_{int(time.time())}_{os.getpid()}_{_replay_counter}.json"
    path = REPLAYS / name
    path.write_text(json.dumps(payload, indent=1, default=str))
    return path


def load_corpus(prop: str) -> list[Any]:
    d = CORPUS / prop
    cases = []
    if d.is_dir():
        for f in sorted(d.glob("*.json")):
            cases.append(json.loads(f.read_text()))
    return cases


def check_main(
    prop: str,
    run: Callable[[Ctx], Result],
    *,
    level: str = "proof",
    technique_note: str = "",
    replay: Callable[[Ctx, Any], Result] | None = None,
    models: list[str] | None = None,
    assumptions: list[str] | None = None,
    quick_s: float = 70.0,
    thorough_s: float = 800.0,
) -> int:
    """Generic entry point: build, audit, correspondence + oracle, verdict, evidence."""
    import argparse

    ap = argparse.ArgumentParser()
    ap.add_argument("--tier", default=os.environ.get("VERIF_TIER", "quick"))
    ap.add_argument("--replay", default=None)
    args, _ = ap.parse_known_args(sys.argv[2:])
    tier = "thorough" if args.tier == "thorough" else "quick"
    seed = int(os.environ.get("VERIF_SEED", "0") or 0)
    t0 = time.time()
    ctx = Ctx(prop, tier, seed, random.Random(seed * 1000003 + hash(prop) % 1000), 1.0, None,
              t0 + (quick_s if tier == "quick" else thorough_s))
    ctx.rng = random.Random(f"{prop}:{seed}")

    # hard stop: a check that hangs (e.g. the code under test deadlocks inside a harness leg without its
    # own time limit) gives no verdict: exit code 2, never a silent hang
    hard = float(os.environ.get("VERIF_HARD_LIMIT_S", "0") or 0) or (quick_s * 6 if tier == "quick" else thorough_s * 4)

    def _watchdog() -> None:
        time.sleep(hard)
        print(f"{prop} check exceeded its hard time limit of {hard:.0f} s (no verdict)", file=sys.stderr, flush=True)
        os._exit(2)

    import threading as _threading

    _threading.Thread(target=_watchdog, daemon=True, name="check-watchdog").start()

    violations_printed = 0
    known = known_findings()
    open_known = [k for k in known.get("open", []) if k.get("property") == prop]

    def report_violation(replay_path: Path, suffix: str = "") -> None:
        nonlocal violations_printed
        violations_printed += 1
        print(f"VIOLATION property={prop} replay={replay_path}{suffix}", flush=True)

    # 1. build
    ok, log = lake_build([f"AnyioModel.Props.{f.stem}" for f in prop_files(prop)]
                         + [f"md_{m}" for m in (models or [])])
    build_problem = None if ok else "lake build failed:\n" + log[-3000:]
    # 2. audit
    aud = {"theorems": [], "clean": [], "partial": [], "axioms": [], "problems": []}
    if ok:
        aud = audit(prop)
    proof_problems = ([build_problem] if build_problem else []) + aud["problems"]
    recheck = None
    if ok and tier == "thorough" and not args.replay:
        # thorough tier: the toolchain's independent re-checker replays the compiled declarations of
        # the property's theorem files (and everything they import) in a fresh kernel
        mods = [f"AnyioModel.Props.{f.stem}" for f in prop_files(prop)]
        try:
            r = subprocess.run(["lake", "env", "leanchecker", *mods], cwd=LEAN, capture_output=True,
                               text=True, timeout=1500)
            recheck = {"cmd": "lake env leanchecker " + " ".join(mods), "exit": r.returncode}
            if r.returncode != 0:
                proof_problems.append("leanchecker rejected the compiled theorems:\n"
                                      + (r.stdout + r.stderr)[-2000:])
        except (subprocess.TimeoutExpired, FileNotFoundError) as e:
            recheck = {"cmd": "lake env leanchecker", "exit": None, "note": f"not run: {e!r}"}

    # 3/4. correspondence + oracle on the real code
    if args.replay:
        payload = json.loads(Path(args.replay).read_text())
        res = (replay or (lambda c, case: Result()))(ctx, payload.get("case") or payload.get("minimal_diverging_case") or payload)
    else:
        res = run(ctx)

    # 5. verdict
    real_violations = []
    for v in res.violations:
        matched = [k for k in open_known if k.get("signature") and k["signature"] == v.signature]
        if matched:
            print(f"KNOWN-FINDING: property={prop} {matched[0].get('what', v.what)}", flush=True)
        else:
            real_violations.append(v)
    seen_sig = set()
    for v in real_violations:
        if v.signature in seen_sig and v.signature:
            continue
        seen_sig.add(v.signature)
        path = write_replay(prop, "violation", {"property": prop, "kind": "oracle-failure-on-real-code",
                                                "what": v.what, "signature": v.signature, "case": v.case,
                                                "seed": seed, "tier": tier})
        report_violation(path)

    unresolved = False
    if (res.disagreements or proof_problems) and not real_violations and not args.replay:
        # R2/R3: search for a concrete failing input on the real code
        found: list[Violation] = []
        if ok and ctx.time_left() > 5:
            sctx = Ctx(prop, tier, seed + 7919, random.Random(f"{prop}:search:{seed}"), 8.0,
                       res.disagreements[0].case if res.disagreements else None,
                       time.time() + (quick_s if tier == "quick" else thorough_s))
            try:
                sres = run(sctx)
                found = [v for v in sres.violations
                         if not any(k.get("signature") == v.signature for k in open_known)]
                res.evaluations += sres.evaluations
            except Exception as exc:  # search must never mask the original problem
                print(f"search failed: {exc!r}", file=sys.stderr)
        if found:
            v = found[0]
            path = write_replay(prop, "violation", {"property": prop, "kind": "oracle-failure-on-real-code",
                                                    "found_by": "search after broken correspondence/proof",
                                                    "what": v.what, "signature": v.signature, "case": v.case})
            report_violation(path)
        else:
            unresolved = True
            what = {
                "property": prop,
                "kind": "broken-proof-or-correspondence",
                "no_longer_checks": (["correspondence check model-vs-implementation of " + prop]
                                     if res.disagreements else []) + proof_problems,
                "minimal_diverging_case": res.disagreements[0].case if res.disagreements else None,
                "detail": res.disagreements[0].detail if res.disagreements else None,
                "n_disagreements": len(res.disagreements),
            }
            path = write_replay(prop, "unresolved", what)
            report_violation(path, " no-failing-input-found")

    wall = time.time() - t0
    thms, clean = aud["theorems"], aud["clean"]
    cov = {
        "obligations": max(len(thms), 1) if level == "proof" else len(thms),
        "discharged": len(clean),
        "checker_cmd": "cd lean && lake build && lake env lean <generated audit: #print axioms per "
                       f"{prop}_* theorem>",
        "trusted_base": TRUSTED_BASE,
        "theorems": thms,
        "partial_theorems": aud["partial"],
        "axioms_used": aud["axioms"],
        "evaluations": res.evaluations,
        "programs": res.evaluations,
        "disagreements_checked": res.traces_validated + len(res.disagreements),
        "traces_validated_against_impl": res.traces_validated,
        "distinct_nontrivial": len(res.nontrivial),
        "rule": res.rule,
        "samples": res.samples[:6] or ["(none)"],
        "disagreements": len(res.disagreements),
        "exhaustive": res.exhaustive,
        "stats": res.stats,
        "explanation": technique_note,
    }
    if recheck is not None:
        cov["stats"] = dict(cov["stats"], leanchecker=recheck)
    # which source this run was tied to: digests of the property's anchored files as they were read
    try:
        import hashlib

        repo = Path(os.environ.get("ANYIO_REPO", "/repo"))
        anchors = next(json.loads(l) for l in (ROOT / "properties.jsonl").read_text().splitlines()
                       if l.strip() and json.loads(l)["id"] == prop)["anchors"]["files"]
        cov["stats"] = dict(cov["stats"], source_tied_to={
            "repo": str(repo),
            "files": {f: hashlib.sha256((repo / f).read_bytes()).hexdigest()[:16] for f in anchors
                      if (repo / f).is_file()}})
    except Exception as e:  # noqa: BLE001  (never let bookkeeping affect the verdict)
        cov["stats"] = dict(cov["stats"], source_tied_to=f"unavailable: {e!r}")
    ev = {
        "property_id": prop,
        "tier": tier,
        "seed": seed,
        "level": level,
        "coverage": cov,
        "assumptions": (assumptions or []) + res.extra_assumptions,
        "wall_s": round(wall, 2),
        "violations": violations_printed,
    }
    # a --replay run covers one case: its record goes next to the replays, the property's evidence file
    # keeps describing the last full run
    evdir = (ROOT / "replays" / "replay-evidence") if args.replay else EVIDENCE
    evdir.mkdir(parents=True, exist_ok=True)
    (evdir / f"{prop}.json").write_text(json.dumps(ev, indent=1, default=str))
    print(f"{prop} tier={tier} seed={seed} theorems={len(clean)}/{len(thms)} cases={res.evaluations} "
          f"traces={res.traces_validated} nontrivial={len(res.nontrivial)} "
          f"disagreements={len(res.disagreements)} violations={violations_printed} wall={wall:.1f}s")
    return 1 if violations_printed else 0
