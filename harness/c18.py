"""C18 Socket streams deliver the byte stream intact, with back-pressure and EOF.

Three legs, all on the REAL code of /repo/src:

A. protocol leg (exact correspondence): `StreamProtocol` + `SocketStream` are driven through a
   FAKE asyncio transport under the virtual-time loop (harness/bench.py).  Several tasks call
   receive / send / send_eof / aclose, get cancelled, and an "environment" task makes the calls a
   transport makes on its protocol (data_received / eof_received / connection_lost /
   pause_writing / resume_writing).  Every loop handle is an event of the Lean model `sock`
   (lean/AnyioModel/Stream/Socket.lean); outcomes, returned chunks and what the transport was
   asked to do (reading flag, closing, write_eof, bytes written) are compared line by line.
   An oracle written from the property text checks the same histories.

B. real sockets (oracle only; the kernel and the loop's transport are not modelled): TCP loopback
   through `anyio.create_tcp_listener`/`anyio.connect_tcp` and UNIX sockets, on stock asyncio
   and uvloop: transfers of 1 byte .. several socket buffers with all small `max_bytes` and
   large ones, slow readers, full duplex, send_eof -> drain -> EndOfStream, local close,
   concurrent use of one direction, and a flood against a stalled reader (back-pressure: the
   writer must block with a bounded amount in flight, the transport's user-space write buffer
   must be empty whenever send() returns, the reader's side must not buffer without bound).

C. UNIX raw-socket loops against a scripted fake non-blocking socket object (partial sends,
   BlockingIOError), compared with the pure model functions `unixSend`/`unixRecv` of `sock`.
"""

from __future__ import annotations

import asyncio
import errno
import os
import random
import shutil
import socket
import tempfile
import time
from typing import Any

import anyio
from anyio import (
    BrokenResourceError,
    BusyResourceError,
    ClosedResourceError,
    EndOfStream,
)
from anyio._backends._asyncio import SocketStream, StreamProtocol, UNIXSocketStream
from anyio.abc import SocketAttribute

from .bench import Adapter, Bench, compare
from .common import Ctx, Disagreement, Result, Violation, load_corpus, run_model

SOCKBUF = 65536  # SO_SNDBUF/SO_RCVBUF asked for on real sockets (disables autotuning)
INFLIGHT_BOUND = 8 * 1024 * 1024  # far above 4 kernel buffers of 2*SOCKBUF; far below "unbounded"


def dotted(b: bytes) -> str:
    return ".".join(str(x) for x in b) if b else "-"


# =========================================================================== leg A: protocol


class FakeTransport(asyncio.Transport):
    """What SocketStream may call on its transport; records it.  Follows the selector transport
    where behaviour is observable by SocketStream (write after write_eof raises RuntimeError,
    write on a lost connection is dropped, write_eof on a closing transport is ignored)."""

    def __init__(self) -> None:
        super().__init__()
        self.reading = True  # asyncio transports start in reading mode
        self.closing = False
        self.lost = False
        self.weof = False
        self.aborted = False
        self.written = bytearray()
        self.limits: Any = None

    def set_write_buffer_limits(self, high: Any = None, low: Any = None) -> None:
        self.limits = (high, low)

    def get_write_buffer_size(self) -> int:
        return 0

    def is_reading(self) -> bool:
        return self.reading and not self.closing

    def pause_reading(self) -> None:
        self.reading = False

    def resume_reading(self) -> None:
        self.reading = True

    def is_closing(self) -> bool:
        return self.closing

    def write(self, data: Any) -> None:
        if self.weof:
            raise RuntimeError("Cannot call write() after write_eof()")
        if self.lost:
            return
        self.written += bytes(data)

    def write_eof(self) -> None:
        if self.closing or self.weof:
            return
        self.weof = True

    def can_write_eof(self) -> bool:
        return True

    def close(self) -> None:
        self.closing = True

    def abort(self) -> None:
        self.closing = True
        self.aborted = True


ENV_OPS = ("data", "eof", "lost", "pause", "resume")


class SockAdapter(Adapter):
    model = "sock"

    def new_line(self, cfg: Any) -> str:
        return f"new {int(bool(cfg['reading0']))}"

    def setup(self, cfg: Any, bench: Bench) -> None:
        self.bench = bench
        self.proto = StreamProtocol()
        self.tr = FakeTransport()
        self.proto.connection_made(self.tr)
        if not cfg["reading0"]:
            self.tr.pause_reading()  # what connect_tcp does right after create_connection
        self.stream = SocketStream(self.tr, self.proto)
        self.eof = False
        self.paused = False
        self.in_ctr = 0  # next byte value the "peer" sends
        self.out_ctr = 0  # next byte value a send() carries
        self.payload: dict[int, bytes] = {}
        self.env_ok: dict[int, bool] = {}

    def _bytes(self, start: int, k: int, mod: int) -> bytes:
        return bytes((start + i) % mod for i in range(k))

    def enabled(self, op: list) -> bool:
        k = op[0]
        tr = self.tr
        if k in ("data", "eof"):
            return tr.reading and not tr.closing and not self.eof and not tr.lost
        if k == "lost":
            return not tr.lost
        if k == "pause":
            return not self.paused and not tr.lost
        if k == "resume":
            return self.paused and not tr.lost
        return True

    def fmt(self, t: int, op: list, pre: bool) -> str:
        k = op[0]
        if k in ENV_OPS:
            self.env_ok[t] = self.enabled(op)
            if not self.env_ok[t]:
                return "nop"
            if k == "data":
                self.payload[t] = self._bytes(self.in_ctr, max(1, op[1]), 251)
                self.in_ctr += len(self.payload[t])
                return "data " + dotted(self.payload[t])
            if k == "lost":
                return f"lost {int(bool(op[1]))}"
            return k
        if k == "receive":
            return f"receive {t} {op[1]}"
        if k == "send":
            self.payload[t] = self._bytes(self.out_ctr, op[1], 241)
            self.out_ctr += op[1]
            return f"send {t} {dotted(self.payload[t])}"
        return f"{k} {t}"

    def call(self, t: int, op: list) -> Any:
        k = op[0]
        if k in ENV_OPS:
            if not self.env_ok[t]:
                return None
            if k == "data":
                self.proto.data_received(self.payload[t])
            elif k == "eof":
                self.eof = True
                keep_open = self.proto.eof_received()
                if not keep_open:
                    self.tr.close()
            elif k == "lost":
                self.tr.lost = True
                self.tr.closing = True
                self.proto.connection_lost(OSError(errno.ECONNRESET, "reset") if op[1] else None)
            elif k == "pause":
                self.paused = True
                self.proto.pause_writing()
            elif k == "resume":
                self.paused = False
                self.proto.resume_writing()
            return None
        if k == "receive":
            return self.stream.receive(op[1])
        if k == "send":
            return self.stream.send(self.payload[t])
        if k == "send_eof":
            return self.stream.send_eof()
        if k == "aclose":
            return self.stream.aclose()
        raise ValueError(op)

    def ok(self, t: int, op: list, value: Any) -> str:
        if op[0] in ENV_OPS:
            return "env"
        if op[0] == "receive":
            return "ret " + dotted(value)
        return "ret"

    def exc(self, t: int, op: list, e: BaseException) -> str:
        return exc_name(e)

    def obs(self) -> str:
        tr = self.tr
        return (f"reading={int(tr.reading)} closing={int(tr.closing)} weof={int(tr.weof)} "
                f"wrote={len(tr.written)}:{sum(tr.written) % 65521}")


def exc_name(e: BaseException) -> str:
    if isinstance(e, asyncio.CancelledError):
        return "cancelled"
    if isinstance(e, EndOfStream):
        return "eos"
    if isinstance(e, ClosedResourceError):
        return "closed"
    if isinstance(e, BrokenResourceError):
        return "broken"
    if isinstance(e, BusyResourceError):
        return "busy"
    if isinstance(e, ValueError):
        return "valueerror"
    if isinstance(e, RuntimeError):
        return "runtimeerror"
    if isinstance(e, TimeoutError):
        return "timeout"
    return "exc:" + type(e).__name__


def gen_proto_case(rng: random.Random, max_ops: int, reading0: bool) -> dict:
    n_user = rng.randint(2, 4)
    calm = rng.random() < 0.6  # no close / connection loss: long data phases
    scripts: list[list[list]] = []
    for t in range(n_user):
        role = "r" if t == 0 else "s" if t == 1 else rng.choice(["r", "s", "rs", "x"])
        ops: list[list] = []
        for _ in range(rng.randint(2, max_ops)):
            r = rng.random()
            others = [j for j in range(n_user) if j != t]
            pre = ["pre"] if rng.random() < 0.04 else []
            if r < 0.42 and "r" in role:
                n = rng.choice([1, 1, 2, 2, 3, 4, 5, 8, 16, 100, 65536, 0])
                ops.append(["receive", n] + pre)
            elif r < 0.42 and "s" in role or r < 0.60 and role == "rs":
                ops.append(["send", rng.choice([0, 1, 1, 2, 3, 5, 9])] + pre)
            elif r < 0.62:
                ops.append(["receive", rng.choice([1, 2, 3, 7, 50])])
            elif r < 0.70:
                ops.append(["send", rng.randint(1, 6)])
            elif r < 0.73 and not calm:
                ops.append(["send_eof"])
            elif r < 0.77 and not calm:
                ops.append(["aclose"])
            elif r < 0.90:
                ops.append(["yield"])
            elif r < 0.96:
                ops.append(["cancel", rng.choice(others)])
            else:
                ops.append(["ncancel", rng.choice(others)])
        scripts.append(ops)
    env: list[list] = []
    for _ in range(rng.randint(3, 2 * max_ops)):
        r = rng.random()
        if r < 0.45:
            env += [["yield"]] * rng.choice([0, 1, 1, 2])
            env.append(["data", rng.choice([1, 1, 2, 3, 4, 6, 9, 14])])
        elif r < 0.70:
            env.append(["yield"])
        elif r < 0.80:
            env.append(["pause"])
        elif r < 0.92:
            env.append(["resume"])
        elif r < 0.96:
            env.append(["eof"])
        elif not calm:
            env.append(["lost", rng.random() < 0.5])
    env.append(["resume"])
    if rng.random() < 0.7:
        env.append(["eof"])
    if rng.random() < 0.5:
        env += [["yield"], ["lost", rng.random() < 0.3]]
    scripts.append(env)
    return {"leg": "proto", "cfg": {"reading0": reading0}, "scripts": scripts}


def _written_check(b: Bench, maybe_written: list[bytes]) -> str | None:
    """bytes given to the transport == concatenation of the payloads of the sends in call order:
    every send that returned normally on a live connection exactly once, interrupted ones at most
    once, rejected ones never (no interleaving, no duplication)."""
    ad: SockAdapter = b.adapter  # type: ignore[assignment]
    w = bytes(ad.tr.written)
    pos = 0
    for item in maybe_written:
        must, p = item[:1] == b"!", item[1:]
        if w[pos: pos + len(p)] == p and (must or p):
            pos += len(p)
        elif must:
            return "bytes written to the transport differ from the payloads of the completed sends"
    if pos != len(w):
        return "transport received bytes that no send() accounts for (interleaving/duplication)"
    return None


def proto_oracle(b: Bench) -> str | None:  # noqa: C901
    """The property, checked in one pass (program order) on the history of calls and outcomes of
    the real code; written from the property text, independent of the Lean model."""
    arrived = bytearray()
    got = bytearray()
    eof = lost = lost_exc = closed = weof = False
    gate_open = True
    recv_in: list[int] = []
    send_in: list[int] = []
    busy_r: set[int] = set()
    busy_s: set[int] = set()
    opened_since: dict[int, bool] = {}
    after_close: set[int] = set()
    written_items: list[bytes] = []
    reqs = [r for r, _ in b.lines]
    env_reqs = iter([r for r in reqs if r.split()[0] in ("data", "eof", "lost", "pause", "resume", "nop")])
    send_reqs = iter([r for r in reqs if r.startswith("send ")])
    send_payload: dict[int, bytes] = {}
    send_closed_at_call: dict[int, bool] = {}

    def undot(s: str) -> bytes:
        return b"" if s == "-" else bytes(int(x) for x in s.split("."))

    for kind, t, op, out in b.events:
        if kind == "call":
            name = op[0]
            if name in ENV_OPS:
                req = next(env_reqs)
                if req == "nop":
                    continue
                if name == "data":
                    arrived += undot(req.split()[1])
                elif name == "eof":
                    eof = True
                elif name == "lost":
                    lost = True
                    lost_exc = lost_exc or req.split()[1] == "1"
                    gate_open = True
                    for u in opened_since:
                        opened_since[u] = True
                elif name == "pause":
                    gate_open = False
                elif name == "resume":
                    gate_open = True
                    for u in opened_since:
                        opened_since[u] = True
            elif name == "receive":
                if op[1] >= 1:
                    if recv_in:
                        busy_r.add(t)
                    else:
                        recv_in.append(t)
                        if closed:
                            after_close.add(t)
            elif name == "send":
                send_payload[t] = undot(next(send_reqs).split()[2])
                if send_in:
                    busy_s.add(t)
                else:
                    send_in.append(t)
                    opened_since[t] = False
                    send_closed_at_call[t] = closed
            elif name == "aclose":
                closed = True
            continue
        if kind != "op":
            continue
        name = op[0]
        if name in ENV_OPS:
            if out != "env":
                return f"environment call raised: {out}"
            continue
        if name == "receive":
            n = op[1]
            if n < 1:
                if out != "valueerror":
                    return f"receive({n}) did not raise ValueError: {out}"
                continue
            if t in busy_r:
                busy_r.discard(t)
                if out != "busy":
                    return f"second concurrent receive was not rejected with BusyResourceError: {out}"
                continue
            if t in recv_in:
                recv_in.remove(t)
            if out == "busy":
                return "BusyResourceError from receive although no other receive was in progress"
            if out.startswith("ret"):
                data = undot(out[4:])
                if not 1 <= len(data) <= n:
                    return f"receive({n}) returned {len(data)} bytes"
                got += data
                if bytes(got) != bytes(arrived[: len(got)]):
                    return "received bytes are not a prefix of the bytes that arrived (order/duplication/loss)"
            elif out == "eos":
                if len(got) != len(arrived):
                    return f"EndOfStream with {len(arrived) - len(got)} received bytes undelivered"
                if not (eof or lost):
                    return "EndOfStream although neither EOF nor connection loss happened"
                if closed:
                    return "EndOfStream from a locally closed stream (ClosedResourceError expected)"
            elif out == "closed":
                if not closed:
                    return "ClosedResourceError from receive on a stream that was not closed"
                if len(got) != len(arrived):
                    return "ClosedResourceError while already-received data was still undelivered"
            elif out == "broken":
                if not lost_exc:
                    return "BrokenResourceError from receive without a connection error"
                if len(got) != len(arrived):
                    return "BrokenResourceError while already-received data was still undelivered"
            elif out == "susp":
                if t in after_close:
                    return "receive() on a locally closed stream blocked"
                if len(got) != len(arrived) or eof or lost:
                    return "receive() left blocked although data/EOF had arrived (lost wake-up)"
            elif out != "cancelled":
                return f"unexpected outcome of receive: {out}"
            after_close.discard(t)
        elif name == "send":
            if t in busy_s:
                busy_s.discard(t)
                if out != "busy":
                    return f"second concurrent send was not rejected with BusyResourceError: {out}"
                continue
            if t in send_in:
                send_in.remove(t)
            if out == "busy":
                return "BusyResourceError from send although no other send was in progress"
            p = send_payload.get(t, b"")
            if out == "ret":
                if not (gate_open or opened_since.get(t)):
                    return "send() returned while the transport had writing paused"
                if send_closed_at_call.get(t):
                    return "send() on a locally closed stream did not raise ClosedResourceError"
                written_items.append((b"?" if lost else b"!") + p)
            elif out == "closed":
                if not closed:
                    return "ClosedResourceError from send on a stream that was not closed"
            elif out == "broken":
                if not (lost or closed or weof):
                    return "BrokenResourceError from send on a healthy connection"
            elif out == "runtimeerror":
                if not weof:
                    return "RuntimeError from send without a previous send_eof"
            elif out in ("cancelled", "susp"):
                if out == "susp" and gate_open and not b.error:
                    return "send() left blocked although the transport accepts writes (lost wake-up)"
                written_items.append(b"?" + p)
            else:
                return f"unexpected outcome of send: {out}"
            opened_since.pop(t, None)
        elif name == "send_eof":
            if out != "ret":
                return f"send_eof raised {out}"
            weof = True
        elif name == "aclose":
            if out not in ("ret", "cancelled", "susp"):
                return f"aclose raised {out}"
            weof = True
    return _written_check(b, written_items)


def proto_nontrivial(b: Bench) -> tuple | None:
    split = blocked = gate = False
    sizes: dict[int, int] = {}
    for r, o in b.lines:
        w = r.split()
        if w[0] == "receive":
            sizes[int(w[1])] = int(w[2])
            blocked = blocked or o == "susp"
        if w[0] == "step" and o.startswith("ret "):
            pass
        if w[0] == "send" and o == "susp":
            gate = True
    got = [o for r, o in b.lines if o.startswith("ret ") and o != "ret"]
    if len(got) >= 2 and (blocked or gate):
        return tuple((r, o) for r, o in b.lines if not r.startswith("obs"))
    return None


def run_proto_cases(cases: list[dict], res: Result) -> None:
    benches: list[Bench] = []
    lines: list[str] = []
    for case in cases:
        b = Bench(SockAdapter(), case).run()
        benches.append(b)
        lines += [r for r, _ in b.lines]
    replies = run_model("sock", lines)
    pos = 0
    st = res.stats.setdefault("proto_outcomes", {})
    for case, b in zip(cases, benches):
        rep = replies[pos: pos + len(b.lines)]
        pos += len(b.lines)
        res.evaluations += 1
        for r, o in b.lines:
            if r.startswith("obs"):
                continue
            k = r.split()[0] + ":" + o.split()[0]
            st[k] = st.get(k, 0) + 1
        if b.error:
            res.violations.append(Violation(case, b.error, "harness:" + b.error[:30]))
            continue
        bad = proto_oracle(b)
        if bad:
            res.violations.append(Violation(case, bad, "C18:proto:" + bad[:40]))
        d = compare(b.lines, rep)
        if d:
            res.disagreements.append(Disagreement(case, d[1]))
        else:
            res.traces_validated += 1
        k = proto_nontrivial(b)
        if k is not None:
            res.nontrivial.add(hash(k))
            if len(res.samples) < 2:
                res.samples.append({"case": case, "trace": [f"{r} -> {o}" for r, o in b.lines[:16]]})


# =========================================================================== leg C: UNIX loops


class FakeRawSocket:
    """Scripted non-blocking socket for UNIXSocketStream's loops.  `script` entries:
    for send: int k >= 1 -> accept k bytes (clamped to what is offered), 0 -> BlockingIOError;
    for recv: bytes chunk available / None -> BlockingIOError / b'' -> EOF."""

    def __init__(self, send_script: list[int], recv_script: list[Any]):
        self.send_script = list(send_script)
        self.recv_script = list(recv_script)
        self.sent = bytearray()
        self.pending = bytearray()
        self.closed = False
        self.blocked_on: str | None = None

    def fileno(self) -> int:
        return -1 if self.closed else 99

    def close(self) -> None:
        self.closed = True

    def send(self, view: Any) -> int:
        if self.closed:
            raise OSError(errno.EBADF, "bad fd")
        k = self.send_script.pop(0) if self.send_script else len(view)
        if k == 0:
            raise BlockingIOError
        k = min(k, len(view))
        self.sent += bytes(view[:k])
        return k

    def recv(self, n: int) -> bytes:
        if self.closed:
            raise OSError(errno.EBADF, "bad fd")
        if not self.pending:
            if not self.recv_script:
                return b""
            nxt = self.recv_script.pop(0)
            if nxt is None:
                raise BlockingIOError
            if nxt == b"":
                return b""
            self.pending += nxt
        out = bytes(self.pending[:n])
        del self.pending[:n]
        return out


class _UnixUnderTest(UNIXSocketStream):
    """the real loops; only the readiness wait is replaced (no real fd to poll)"""

    def _wait_until_readable(self, loop: Any) -> Any:  # type: ignore[override]
        f = loop.create_future()
        loop.call_soon(f.set_result, None)
        return f

    _wait_until_writable = _wait_until_readable  # type: ignore[assignment]


def run_unix_fake(case: dict) -> dict:
    async def main() -> dict:
        raw = FakeRawSocket(case["send_script"], [None if c is None else bytes(c) for c in case["recv_script"]])
        s = _UnixUnderTest(raw)  # type: ignore[arg-type]
        out: dict[str, Any] = {"send": [], "recv": []}
        for k in case["sends"]:
            item = bytes((len(raw.sent) + i) % 239 for i in range(k))
            try:
                await s.send(item)
                out["send"].append("ret")
            except BaseException as e:  # noqa: BLE001
                out["send"].append(exc_name(e))
        out["sent"] = bytes(raw.sent)
        for n in case["recvs"]:
            try:
                out["recv"].append(["ret", list(await s.receive(n))])
            except BaseException as e:  # noqa: BLE001
                out["recv"].append([exc_name(e)])
        return out

    loop = asyncio.new_event_loop()
    try:
        return loop.run_until_complete(main())
    finally:
        loop.close()


def gen_unix_fake(rng: random.Random) -> dict:
    sends = [rng.choice([1, 2, 3, 7, 20, 64]) for _ in range(rng.randint(1, 4))]
    send_script = [rng.choice([0, 0, 1, 2, 3, 5, 100]) for _ in range(rng.randint(0, 30))]
    recv_script: list[Any] = []
    ctr = 0
    for _ in range(rng.randint(1, 8)):
        if rng.random() < 0.3:
            recv_script.append(None)
        else:
            k = rng.choice([1, 2, 5, 9, 30])
            recv_script.append([(ctr + i) % 233 for i in range(k)])
            ctr += k
    recvs = [rng.choice([1, 2, 3, 4, 8, 100, 0]) for _ in range(rng.randint(1, 14))]
    return {"leg": "unixfake", "sends": sends, "send_script": send_script,
            "recv_script": recv_script, "recvs": recvs}


def check_unix_fake(case: dict, res: Result, model_lines: list[str], pending: list) -> None:
    out = run_unix_fake(case)
    res.evaluations += 1
    st = res.stats.setdefault("unixfake", {})
    # oracle
    exp_sent = bytearray()
    for k in case["sends"]:
        exp_sent += bytes((len(exp_sent) + i) % 239 for i in range(k))
    bad = None
    if any(o != "ret" for o in out["send"]) or out["sent"] != bytes(exp_sent):
        bad = "UNIX send loop did not deliver exactly the item bytes in order"
    avail = b"".join(bytes(c) for c in case["recv_script"] if c is not None)
    got = bytearray()
    ended = False
    for n, r in zip(case["recvs"], out["recv"]):
        st[r[0]] = st.get(r[0], 0) + 1
        if n < 1:
            if r[0] != "valueerror":
                bad = bad or f"receive({n}) did not raise ValueError"
            continue
        if r[0] == "ret":
            d = bytes(r[1])
            if not 1 <= len(d) <= n:
                bad = bad or f"UNIX receive({n}) returned {len(d)} bytes"
            got += d
            if ended:
                bad = bad or "data after EndOfStream"
        elif r[0] == "eos":
            ended = True
            if bytes(got) != avail:
                bad = bad or "EndOfStream before all bytes were delivered"
        else:
            bad = bad or f"unexpected outcome {r[0]}"
    if bytes(got) != avail[: len(got)]:
        bad = bad or "UNIX receive: bytes not a prefix of what the socket had (order/duplication)"
    if bad:
        res.violations.append(Violation(case, bad, "C18:unixfake:" + bad[:40]))
    # model: pure functions
    model_lines.append("usend " + dotted(bytes(exp_sent)) + " " + ",".join(map(str, case["send_script"])) if False else
                       "usend " + ",".join(map(str, case["sends"])) + " " + (",".join(map(str, case["send_script"])) or "-"))
    pending.append((case, "usend", "sent " + dotted(out["sent"])))
    rs = ";".join("b" if c is None else dotted(bytes(c)) for c in case["recv_script"]) or "-"
    model_lines.append("urecv " + rs + " " + ",".join(map(str, case["recvs"])))
    canon = " ".join(("ret:" + dotted(bytes(r[1]))) if r[0] == "ret" else r[0] for r in out["recv"])
    pending.append((case, "urecv", canon))


# =========================================================================== leg B: real sockets


def pattern(seed: int, n: int) -> bytes:
    return random.Random(seed).randbytes(n)


class RealFail(Exception):
    pass


async def make_pair(kind: str, tmpdir: str, idx: int) -> tuple[Any, Any, Any]:
    """(client stream, accepted stream, listener) with small fixed kernel buffers"""
    if kind == "tcp":
        multi = await anyio.create_tcp_listener(local_host="127.0.0.1")
        listener = multi.listeners[0]
        lsock = listener.extra(SocketAttribute.raw_socket)
        port = listener.extra(SocketAttribute.local_port)
    else:
        path = os.path.join(tmpdir, f"s{idx}.sock")
        listener = await anyio.create_unix_listener(path)
        lsock = listener.extra(SocketAttribute.raw_socket)
    lsock.setsockopt(socket.SOL_SOCKET, socket.SO_RCVBUF, SOCKBUF)
    lsock.setsockopt(socket.SOL_SOCKET, socket.SO_SNDBUF, SOCKBUF)
    acc: dict[str, Any] = {}

    async def do_accept() -> None:
        acc["s"] = await listener.accept()

    async with anyio.create_task_group() as tg:
        tg.start_soon(do_accept)
        if kind == "tcp":
            client = await anyio.connect_tcp("127.0.0.1", port)
        else:
            client = await anyio.connect_unix(path)
    for s in (client, acc["s"]):
        rs = s.extra(SocketAttribute.raw_socket)
        rs.setsockopt(socket.SOL_SOCKET, socket.SO_RCVBUF, SOCKBUF)
        rs.setsockopt(socket.SOL_SOCKET, socket.SO_SNDBUF, SOCKBUF)
    return client, acc["s"], listener


def transport_of(stream: Any) -> Any:
    """the asyncio transport behind a TCP stream (no public accessor): the attribute holding one"""
    tr = getattr(stream, "_transport", None)
    if isinstance(tr, asyncio.BaseTransport):
        return tr
    names = list(getattr(stream, "__dict__", {}))
    for klass in type(stream).__mro__:
        names += list(getattr(klass, "__slots__", ()))
    for n in names:
        v = getattr(stream, n, None)
        if isinstance(v, asyncio.BaseTransport):
            return v
    return None


def wbuf(stream: Any) -> int:
    tr = transport_of(stream)
    return tr.get_write_buffer_size() if tr is not None else 0


async def sc_transfer(case: dict, a: Any, b: Any, notes: dict) -> str | None:
    """a -> b (and b -> a when duplex): sizes/max_bytes/delays from the case; then a.send_eof(),
    b drains and must see EndOfStream; b's direction stays usable (half-close)."""
    dirs = [(a, b, case["sizes"], case["maxb"], 1)]
    if case.get("duplex"):
        dirs.append((b, a, case["sizes2"], case["maxb2"], 2))
    problems: list[str] = []

    async def writer(s: Any, sizes: list[int], seed: int, eof: bool) -> None:
        data = pattern(case["seed"] + seed, sum(sizes))
        pos = 0
        for i, k in enumerate(sizes):
            await s.send(data[pos: pos + k])
            if wbuf(s) != 0:
                problems.append(f"send() returned with {wbuf(s)} bytes still in the transport's write buffer")
            pos += k
            if case.get("wdelay") and i % 3 == 0:
                await anyio.sleep(0.001)
        if eof:
            await s.send_eof()

    async def reader(s: Any, sizes: list[int], maxb: list[int], seed: int, eof: bool) -> None:
        total = sum(sizes)
        data = pattern(case["seed"] + seed, total)
        got = 0
        i = 0
        while got < total or eof:
            n = maxb[i % len(maxb)]
            i += 1
            try:
                chunk = await s.receive(n)
            except EndOfStream:
                if got != total:
                    problems.append(f"EndOfStream after {got} of {total} bytes")
                if not eof:
                    problems.append("EndOfStream without send_eof/close by the peer")
                return
            if not 1 <= len(chunk) <= n:
                problems.append(f"receive({n}) returned {len(chunk)} bytes")
                return
            if chunk != data[got: got + len(chunk)]:
                problems.append(f"bytes differ at offset {got} (order/duplication/loss)")
                return
            got += len(chunk)
            if got > total:
                problems.append("more bytes received than sent")
                return
            d = case.get("rdelay", 0)
            if d and i % d == 0:
                await anyio.sleep(0.002)
        notes["chunks"] = notes.get("chunks", 0) + i

    with anyio.fail_after(case.get("timeout", 20)):
        async with anyio.create_task_group() as tg:
            for s, r, sizes, maxb, seed in dirs:
                eof = seed == 1
                tg.start_soon(writer, s, sizes, seed, eof)
                tg.start_soon(reader, r, sizes, maxb, seed, eof)
    if problems:
        return problems[0]
    # half-close: b can still send to a after a's send_eof
    if not case.get("duplex"):
        await b.send(b"pong")
        with anyio.fail_after(5):
            buf = b""
            while len(buf) < 4:
                buf += await a.receive(10)
        if buf != b"pong":
            return "after send_eof the other direction did not carry data intact"
    # a second receive at EOF stays EndOfStream
    try:
        with anyio.fail_after(5):
            await b.receive(1)
        return "receive after EndOfStream returned data"
    except EndOfStream:
        pass
    return None


async def sc_flood(case: dict, a: Any, b: Any, notes: dict) -> str | None:
    """writer floods, reader stalled: the writer must block with a bounded amount in flight"""
    writer, reader = (a, b) if case["writer"] == "client" else (b, a)
    block = pattern(case["seed"], 65521)
    sent = 0
    maxw = 0
    stop = False
    if case.get("cancelled_receive"):
        with anyio.move_on_after(0.02):
            await reader.receive(10)
            return "receive returned data nobody sent"

    async def flood() -> None:
        nonlocal sent, maxw
        item = case["item"]
        while not stop:
            off = sent % len(block)
            piece = (block[off:] + block * (item // len(block) + 1))[:item]
            await writer.send(piece)
            sent += item
            maxw = max(maxw, wbuf(writer))

    bad = None
    async with anyio.create_task_group() as tg:
        tg.start_soon(flood)
        t0 = time.monotonic()
        last = -1
        stable = 0
        while time.monotonic() - t0 < case.get("dur", 0.6):
            await anyio.sleep(0.03)
            if sent > INFLIGHT_BOUND:
                break
            stable = stable + 1 if sent == last else 0
            last = sent
            if stable >= 4:
                break
        stalled_at = sent
        notes["flood_inflight_max"] = max(notes.get("flood_inflight_max", 0), stalled_at)
        if stalled_at > INFLIGHT_BOUND:
            bad = (f"reader-unbounded-buffering: writer pushed {stalled_at} bytes into a connection whose "
                   f"reader consumed nothing (kernel buffers {SOCKBUF}); send() does not block")
        stop = True
        tg.cancel_scope.cancel()
    if bad:
        return bad
    if maxw != 0:
        return f"send() returned with {maxw} bytes left in the transport's write buffer (no back-pressure)"
    # the blocked send was cancelled mid-item: what arrives must be a prefix of the pattern
    # stream, at least `sent` bytes long (nothing lost, nothing reordered)
    await writer.aclose()
    got = 0
    with anyio.fail_after(30):
        while True:
            try:
                chunk = await reader.receive(case.get("drain_max", 65536))
            except (EndOfStream, BrokenResourceError):
                break
            off = got % len(block)
            exp = (block[off:] + block * (len(chunk) // len(block) + 1))[: len(chunk)]
            if chunk != exp:
                return f"bytes differ at offset {got} after back-pressure"
            got += len(chunk)
    if got < sent:
        return f"{sent - got} bytes lost: completed sends {sent}, received {got}"
    if got > sent + case["item"]:
        return "more bytes received than were ever handed to send()"
    return None


async def sc_close(case: dict, a: Any, b: Any, notes: dict) -> str | None:
    """local close: send -> ClosedResourceError; receive drains what was already received (if
    anything) and then raises ClosedResourceError, never blocking; peer sees EndOfStream."""
    data = pattern(case["seed"], case["n"])
    await b.send(data)
    await anyio.sleep(0.01)
    pre = b""
    if case.get("read_first"):
        with anyio.fail_after(5):
            pre = await a.receive(case["first_max"])
        if pre != data[: len(pre)] or not pre:
            return "first receive wrong"
    await a.aclose()
    try:
        await a.send(b"x")
        return "send on a closed stream did not raise"
    except ClosedResourceError:
        pass
    except BaseException as e:  # noqa: BLE001
        return f"send on a closed stream raised {type(e).__name__}, not ClosedResourceError"
    got = bytearray(pre)
    for _ in range(case["n"] + 5):
        try:
            with anyio.fail_after(3):
                chunk = await a.receive(case["maxb"])
        except ClosedResourceError:
            break
        except TimeoutError:
            return "receive on a locally closed stream blocked"
        except BaseException as e:  # noqa: BLE001
            return f"receive on a closed stream raised {type(e).__name__}, not ClosedResourceError"
        if not 1 <= len(chunk) <= case["maxb"]:
            return f"receive({case['maxb']}) returned {len(chunk)} bytes after close"
        got += chunk
        if bytes(got) != data[: len(got)]:
            return "bytes drained after close are not the received prefix"
    else:
        return "receive on a closed stream never raised ClosedResourceError"
    notes["drained_after_close"] = notes.get("drained_after_close", 0) + len(got) - len(pre)
    # peer: EndOfStream (or a reset, if our unread data made the kernel send RST)
    try:
        with anyio.fail_after(5):
            while True:
                await b.receive(100)
                return "peer received data that was never sent"
    except EndOfStream:
        pass
    except BrokenResourceError:
        notes["peer_reset_after_close"] = notes.get("peer_reset_after_close", 0) + 1
    except TimeoutError:
        return "peer of a closed stream never saw the end of the stream"
    await a.aclose()  # idempotent
    return None


async def sc_busy(case: dict, a: Any, b: Any, notes: dict) -> str | None:
    """two tasks on one direction: the second is refused, the first is undisturbed"""
    res: dict[str, Any] = {}
    data = pattern(case["seed"], 3000)

    async def first_recv() -> None:
        res["r1"] = await a.receive(100)

    async with anyio.create_task_group() as tg:
        tg.start_soon(first_recv)
        await anyio.sleep(0.01)
        try:
            with anyio.fail_after(2):
                await a.receive(100)
            res["r2"] = "ret"
        except BusyResourceError:
            res["r2"] = "busy"
        except BaseException as e:  # noqa: BLE001
            res["r2"] = type(e).__name__
        await b.send(data[:50])
        with anyio.fail_after(5):
            pass
    if res.get("r2") != "busy":
        return f"second concurrent receive: {res.get('r2')} instead of BusyResourceError"
    if res.get("r1") != data[: len(res.get("r1", b""))] or not res.get("r1"):
        return "the first receive was disturbed by the rejected one"
    rest = 50 - len(res["r1"])
    got = bytearray(res["r1"])
    with anyio.fail_after(5):
        while rest:
            c = await a.receive(100)
            got += c
            rest -= len(c)
    if bytes(got) != data[:50]:
        return "data after a rejected concurrent receive is not intact"
    # send side: block a sender on back-pressure, then try a second send
    big = pattern(case["seed"] + 1, 4 * 1024 * 1024)
    out: dict[str, Any] = {}

    tried = anyio.Event()
    tried_done = anyio.Event()

    async def first_send() -> None:
        try:
            await a.send(big)
        except BaseException as e:  # noqa: BLE001
            out["first_exc"] = type(e).__name__
            tried_done.set()
            return
        out["first_done_before_intruder"] = not tried.is_set()
        await tried.wait()
        try:
            await a.send_eof()
        except BaseException as e:  # noqa: BLE001
            if out.get("eof2") != "ret":  # a second send_eof after an accepted one may be refused
                out["eof_exc"] = type(e).__name__

    async def drain() -> None:
        got2 = 0
        while True:
            try:
                c = await b.receive(65536)
            except EndOfStream:
                break
            if c != big[got2: got2 + len(c)]:
                out["bad"] = f"interleaved/garbled bytes at offset {got2}"
                break
            got2 += len(c)
        out["got"] = got2

    with anyio.fail_after(30):
        async with anyio.create_task_group() as tg:
            tg.start_soon(first_send)
            await anyio.sleep(0.02)  # the first sender is now blocked on the full kernel buffer
            try:
                await a.send(b"INTRUDER")
                out["s2"] = "ret"
            except BusyResourceError:
                out["s2"] = "busy"
            except BaseException as e:  # noqa: BLE001
                out["s2"] = type(e).__name__
            # the same direction again, through send_eof(): refused, or deferred until the send in
            # progress is through - never cutting it short
            try:
                await a.send_eof()
                out["eof2"] = "ret"
            except BusyResourceError:
                out["eof2"] = "busy"
            except BaseException as e:  # noqa: BLE001
                out["eof2"] = type(e).__name__
            tried.set()
            tg.start_soon(drain)
    if out.get("first_done_before_intruder"):
        return (f"reader-unbounded-buffering: send() of {len(big)} bytes returned although the peer read "
                f"nothing (kernel buffers {SOCKBUF})")
    if out.get("s2") != "busy":
        return f"second concurrent send: {out.get('s2')} instead of BusyResourceError"
    if out.get("eof2") not in ("busy", "ret"):
        return f"send_eof() during a blocked send raised {out.get('eof2')}"
    if out.get("first_exc"):
        return (f"a send in progress failed with {out['first_exc']} because another task called send_eof() "
                f"(which {'was accepted' if out.get('eof2') == 'ret' else 'was refused'})")
    if out.get("eof_exc"):
        return f"send_eof() after the send raised {out['eof_exc']}"
    if out.get("bad"):
        return out["bad"]
    if out.get("got") != len(big):
        return f"received {out.get('got')} of {len(big)} bytes around a rejected concurrent send"
    return None


async def sc_close_blocked(case: dict, a: Any, b: Any, notes: dict) -> str | None:
    """local close while tasks are blocked in receive() and/or send() on that stream: each of them ends
    with ClosedResourceError, none stays blocked, the loop reports no internal error (F13)"""
    import logging

    out: dict[str, str] = {}
    errs: list[str] = []

    class H(logging.Handler):
        def emit(self, record: logging.LogRecord) -> None:
            errs.append(record.getMessage().splitlines()[0])

    h = H()
    logging.getLogger("asyncio").addHandler(h)

    async def recv() -> None:
        try:
            await a.receive()
            out["recv"] = "returned"
        except BaseException as e:  # noqa: BLE001
            out["recv"] = type(e).__name__

    async def send() -> None:
        try:
            await a.send(pattern(case["seed"], 8 * 1024 * 1024))  # the peer never reads
            out["send"] = "returned"
        except BaseException as e:  # noqa: BLE001
            out["send"] = type(e).__name__

    want = [k for k in ("recv", "send") if k in case["blocked"]]
    try:
        async with anyio.create_task_group() as tg:
            if "recv" in want:
                tg.start_soon(recv)
            if "send" in want:
                tg.start_soon(send)
            await anyio.sleep(0.03)
            await a.aclose()
            with anyio.move_on_after(3):
                while len(out) < len(want):
                    await anyio.sleep(0.005)
            tg.cancel_scope.cancel()
    finally:
        logging.getLogger("asyncio").removeHandler(h)
    for k in want:
        if k == "send" and out.get(k) in ("returned", "BrokenResourceError"):
            # a send that was in progress when the stream was closed under it: the property speaks
            # of operations on a closed stream and of never blocking; the TCP transport's abort()
            # releases the drain wait and send() returns (DESIGN section 4, scoping)
            continue
        if out.get(k) != "ClosedResourceError":
            what = "stayed blocked" if out.get(k) in (None, "CancelledError") else f"ended with {out.get(k)}"
            return (f"stream closed locally while {' and '.join(want)} were blocked: the task in {k}() {what} "
                    f"instead of raising ClosedResourceError")
    if errs:
        return f"closing the stream with {' and '.join(want)} blocked made the event loop log: {errs[0]}"
    return None


SCENARIOS = {"transfer": sc_transfer, "flood": sc_flood, "close": sc_close, "busy": sc_busy,
             "close_blocked": sc_close_blocked}


def run_real(case: dict) -> tuple[str | None, dict]:
    notes: dict[str, Any] = {}

    async def main() -> str | None:
        tmpdir = tempfile.mkdtemp(prefix="c18_", dir="/tmp")
        client = server = listener = None
        try:
            with anyio.fail_after(case.get("timeout", 25) + 10):
                client, server, listener = await make_pair(case["kind"], tmpdir, 0)
                return await SCENARIOS[case["scenario"]](case, client, server, notes)
        except TimeoutError:
            return "timeout: scenario did not finish (deadlock?)"
        finally:
            with anyio.CancelScope(shield=True):
                for s in (client, server, listener):
                    if s is not None:
                        try:
                            await s.aclose()
                        except BaseException:  # noqa: BLE001
                            pass
            shutil.rmtree(tmpdir, ignore_errors=True)

    try:
        bad = anyio.run(main, backend_options={"use_uvloop": bool(case.get("uvloop"))})
    except BaseException as e:  # noqa: BLE001
        if isinstance(e, (KeyboardInterrupt, SystemExit)):
            raise
        inner = e
        while isinstance(inner, BaseExceptionGroup) and inner.exceptions:
            inner = inner.exceptions[0]
        bad = f"scenario raised {type(inner).__name__}: {inner}"
    return bad, notes


SMALL_MAX = [1, 2, 3, 4, 5, 7, 8, 13, 16, 31, 64, 100]
LARGE_MAX = [4096, 65535, 65536, 65537, 1 << 20]


def gen_real_cases(rng: random.Random, tier: str) -> list[dict]:
    cases: list[dict] = []
    thorough = tier == "thorough"
    for kind in ("tcp", "unix"):
        for uv in (False, True):
            base = {"leg": "real", "kind": kind, "uvloop": uv}
            reps = 6 if thorough else 2
            for _ in range(reps):
                # small messages, every small max_bytes
                sizes = [rng.choice([1, 1, 2, 3, 10, 100, 1000]) for _ in range(rng.randint(5, 25))]
                cases.append({**base, "scenario": "transfer", "seed": rng.randrange(1 << 30), "sizes": sizes,
                              "maxb": rng.sample(SMALL_MAX, 5), "rdelay": rng.choice([0, 3, 7]),
                              "wdelay": rng.random() < 0.5})
                # several socket buffers, slow reader, mixed max_bytes
                sizes = [rng.choice([1, 4096, SOCKBUF - 1, SOCKBUF + 1, 3 * SOCKBUF, 8 * SOCKBUF + 7])
                         for _ in range(rng.randint(3, 7))]
                cases.append({**base, "scenario": "transfer", "seed": rng.randrange(1 << 30), "sizes": sizes,
                              "maxb": rng.sample(LARGE_MAX, 3) + [rng.choice([100, 1000, 5000])],
                              "rdelay": rng.choice([2, 5, 20])})
                # full duplex, both directions busy with big items
                cases.append({**base, "scenario": "transfer", "seed": rng.randrange(1 << 30), "duplex": True,
                              "sizes": [rng.choice([1, 70000, 5 * SOCKBUF, 12 * SOCKBUF]) for _ in range(4)],
                              "sizes2": [rng.choice([3, 65536, 6 * SOCKBUF, 10 * SOCKBUF + 1]) for _ in range(4)],
                              "maxb": [rng.choice(LARGE_MAX), rng.choice([7, 1000])],
                              "maxb2": [rng.choice(LARGE_MAX), rng.choice([1, 333, 4096])],
                              "rdelay": rng.choice([0, 50])})
                for writer, canc in (("client", False), ("server", True), ("client", True), ("server", False)):
                    cases.append({**base, "scenario": "flood", "seed": rng.randrange(1 << 30), "writer": writer,
                                  "item": rng.choice([1000, 65536, 300000]),
                                  "cancelled_receive": canc,
                                  "drain_max": rng.choice([65536, 1 << 20, 5000])})
                for read_first in (True, False):
                    cases.append({**base, "scenario": "close", "seed": rng.randrange(1 << 30),
                                  "n": rng.choice([1, 10, 300, 5000]), "read_first": read_first,
                                  "first_max": rng.choice([1, 3, 100]),
                                  "maxb": rng.choice([1, 2, 7, 100, 65536])})
                cases.append({**base, "scenario": "busy", "seed": rng.randrange(1 << 30)})
            for blocked in (["recv"], ["send"], ["recv", "send"]):
                cases.append({**base, "scenario": "close_blocked", "seed": rng.randrange(1 << 30),
                              "blocked": blocked})
    return cases


def probe_reading0() -> dict[str, bool]:
    """initial reading state of the transports the real constructors hand to SocketStream
    (public asyncio API `Transport.is_reading()`), used as configuration of the protocol leg"""
    async def main() -> dict[str, bool]:
        tmpdir = tempfile.mkdtemp(prefix="c18_", dir="/tmp")
        try:
            c, s, lst = await make_pair("tcp", tmpdir, 0)
            out = {"connect": bool(transport_of(c).is_reading()), "accept": bool(transport_of(s).is_reading())}
            for x in (c, s, lst):
                await x.aclose()
            return out
        finally:
            shutil.rmtree(tmpdir, ignore_errors=True)

    return anyio.run(main)


# =========================================================================== run


def run_case(case: dict, res: Result) -> None:
    leg = case.get("leg")
    if leg == "proto":
        run_proto_cases([case], res)
    elif leg == "unixfake":
        lines: list[str] = []
        pend: list = []
        check_unix_fake(case, res, lines, pend)
        flush_unix(lines, pend, res)
    elif leg == "real":
        do_real(case, res)
    elif leg == "probe":
        for how, r in probe_reading0().items():
            if r:
                res.violations.append(Violation(case, f"reader-unbounded-buffering: transport made by {how} "
                                                "starts reading", "C18:reader-unbounded-buffering"))


def flush_unix(lines: list[str], pend: list, res: Result) -> None:
    if not lines:
        return
    replies = run_model("sock", lines)
    ok_by_case: dict[int, bool] = {}
    for (case, what, exp), got in zip(pend, replies):
        if exp != got:
            res.disagreements.append(Disagreement(case, f"{what}: implementation {exp!r}, model {got!r}"))
            ok_by_case[id(case)] = False
        else:
            ok_by_case.setdefault(id(case), True)
    res.traces_validated += sum(1 for v in ok_by_case.values() if v)


def do_real(case: dict, res: Result) -> None:
    t0 = time.time()
    bad, notes = run_real(case)
    res.evaluations += 1
    st = res.stats.setdefault("real", {})
    key = f"{case['kind']}/{'uvloop' if case.get('uvloop') else 'asyncio'}/{case['scenario']}"
    st[key] = st.get(key, 0) + 1
    for k, v in notes.items():
        if k.endswith("_max"):
            res.stats[k] = max(res.stats.get(k, 0), v)
        else:
            res.stats[k] = res.stats.get(k, 0) + v
    res.stats["real_seconds"] = round(res.stats.get("real_seconds", 0) + time.time() - t0, 2)
    if bad:
        sig = "C18:reader-unbounded-buffering" if bad.startswith("reader-unbounded") else "C18:real:" + bad[:40]
        res.violations.append(Violation(case, f"{key}: {bad}", sig))
    else:
        res.nontrivial.add(hash(repr(sorted(case.items(), key=str))))


def run(ctx: Ctx) -> Result:
    res = Result(rule="protocol leg: random multi-task scripts (receive/send/send_eof/aclose/cancel) against "
                      "scripted transport callbacks; non-trivial = at least two chunks returned and some "
                      "operation had to block (read wait or write gate); real leg: every scenario that ran to "
                      "its end on a real socket pair counts (distinct = distinct parameters); unix-fake leg: "
                      "scripted partial sends / BlockingIOError")
    for c in load_corpus("C18"):
        run_case(c, res)
    reading0 = probe_reading0()
    res.stats["initial_reading"] = str(reading0)
    res.evaluations += 1
    for how, r in reading0.items():
        if r:
            res.violations.append(Violation(
                {"leg": "probe"}, f"reader-unbounded-buffering: the transport of a stream made by {how} is "
                "reading although no receive() is waiting: incoming data is queued without limit",
                "C18:reader-unbounded-buffering"))
    focus = (ctx.focus or {}).get("leg") if isinstance(ctx.focus, dict) else None
    # --- real sockets first (they carry the back-pressure part of the property)
    if focus in (None, "real"):
        cases = gen_real_cases(ctx.rng, ctx.tier)
        budget = 28 if ctx.tier == "quick" else 420
        t0 = time.time()
        for c in cases:
            if time.time() - t0 > budget or ctx.time_left() < 15:
                res.stats["real_skipped_for_time"] = res.stats.get("real_skipped_for_time", 0) + 1
                continue
            do_real(c, res)
    # --- protocol leg
    if focus in (None, "proto"):
        n = ctx.n(1200, 15000)
        mo = 8 if ctx.tier == "quick" else 12
        cases = [gen_proto_case(ctx.rng, mo, reading0["accept"] if i % 2 else reading0["connect"])
                 for i in range(n)]
        for i in range(0, len(cases), 250):
            if ctx.time_left() < 8:
                break
            run_proto_cases(cases[i: i + 250], res)
    # --- UNIX loops on a scripted socket
    if focus in (None, "unixfake"):
        lines: list[str] = []
        pend: list = []
        for _ in range(ctx.n(150, 3000)):
            check_unix_fake(gen_unix_fake(ctx.rng), res, lines, pend)
        flush_unix(lines, pend, res)
    # --- _RawSocketMixin: registrations, done-callbacks and aclose() (model Stream/RawSock.lean; F13)
    if focus in (None, "rawsock"):
        # this leg mirrors private state of _RawSocketMixin (its model is a model of that mechanism); if
        # the private layout has changed it is skipped - the real-socket scenario close_blocked above
        # still judges the behaviour
        layout = all(hasattr(UNIXSocketStream, a) for a in
                     ("_receive_future", "_send_future", "_closing", "_wait_until_readable",
                      "_wait_until_writable"))
        if layout:
            from . import c18_rawsock

            res.merge(c18_rawsock.run(ctx, budget_s=5.0 if ctx.tier == "quick" else 60.0))
        else:
            res.stats["rawsock_leg"] = "skipped: private layout of _RawSocketMixin changed"
    return res


def replay(ctx: Ctx, case: Any) -> Result:
    res = Result(rule="replay")
    if isinstance(case, dict) and case.get("leg") == "rawsock":
        from . import c18_rawsock

        return c18_rawsock.replay(ctx, case)
    run_case(case, res)
    return res


if __name__ == "__main__":
    import sys
    from .common import check_main

    sys.exit(check_main(
        "C18", run, replay=replay, models=["sock", "rawsock"], level="proof",
        technique_note="Lean 4 theorems over the StreamProtocol/SocketStream LTS (all event lists) and the "
                       "UNIX send/receive loops (all partial-send scripts); event-by-event replay of the real "
                       "classes over a fake transport; oracle on real TCP/UNIX sockets on asyncio and uvloop",
        assumptions=[
            "the kernel's stream sockets deliver bytes in order, once, and report EOF after the peer's shutdown",
            "asyncio's selector transport and uvloop's transport call data_received only while reading is "
            "resumed, never with empty data, pause_writing/resume_writing alternately, connection_lost last, "
            "and with write-buffer limits 0 call pause_writing from write() whenever bytes remain unsent",
        ]))
