"""Oracles for the kernel properties C01-C07, written from the property statements and
evaluated on the *real code's* observable history (harness/kernel.py `history`), independently
of the Lean model.

The only facts taken from the implementation are public observations: which statement ran
when, what each operation returned or raised, `cancel_called` / `shield` /
`cancelled_caught` of scopes, `Task.cancelling()`, `TaskHandle.status`, the virtual clock and
the loop cycle counter.  Effective cancellation, absorption, deadlines and joins are
recomputed here by a reference semantics (`Mirror`).
"""

from __future__ import annotations

from collections import Counter
from typing import Any

LATENCY = 3  # cycles allowed between "blocked in an effectively cancelled scope" and the interrupt


def code_leaves(code: str) -> list[str]:
    if code == "-":
        return []
    if code.startswith("g:"):
        return [x for x in code[2:].split(",") if x]
    return [code]


def is_cancel_code(c: str) -> bool:
    return c in ("c", "n")


class Mirror:
    def __init__(self) -> None:
        self.sc: dict[int, dict] = {}
        self.task_scope: dict[int, int | None] = {0: None}
        self.groups: dict[int, dict] = {}
        self.tasks: dict[int, dict] = {0: {"group": None}}

    def flags(self, fl: dict) -> None:
        for L, (cc, sh) in fl.items():
            d = self.sc.setdefault(L, {"parent": None, "active": False, "host": None,
                                       "deadline": None, "explicit": False, "key": "?",
                                       "cancelled": False, "shield": False, "entered": False})
            d["cancelled"] = cc
            d["shield"] = sh

    def effective(self, L: int | None) -> bool:
        seen = 0
        while L is not None and seen < 1000:
            d = self.sc[L]
            if d["cancelled"]:
                return True
            if d["shield"]:
                return False
            L = d["parent"]
            seen += 1
        return False

    def parent_visible(self, L: int) -> bool:
        d = self.sc[L]
        return d["parent"] is not None and not d["shield"] and self.effective(d["parent"])

    def eff_deadline(self, T: int) -> str:
        L = self.task_scope.get(T)
        best: float = float("inf")
        while L is not None:
            d = self.sc[L]
            if d["deadline"] is not None:
                best = min(best, d["deadline"])
            if d["cancelled"]:
                return "-inf"
            if d["shield"]:
                break
            L = d["parent"]
        return "inf" if best == float("inf") else str(int(best))


def analyze(run: Any) -> dict[str, list[str]]:  # noqa: C901
    """one pass over the history; returns violations per property"""
    V: dict[str, list[str]] = {p: [] for p in ("C01", "C02", "C03", "C04", "C05", "C06", "C07")}
    m = Mirror()
    blocked: dict[int, dict] = {}  # T -> {"since_cycle", "cancelled_since", "kind"}
    quiet_ops: dict[int, int] = {}  # consecutive normally-completed checkpoints in a cancelled scope
    entry_cancelling: dict[int, tuple] = {}  # L -> (T, cancelling at entry, natives at entry, uncancels)
    natives: Counter = Counter()
    uncancels: Counter = Counter()
    last_cancelling: dict[int, int] = {}
    recent_eff: dict[int, list] = {}  # T -> [(cycle, effective?)] short history
    starts: dict[int, dict] = {}  # child T -> info
    hist = run.history
    # on a real clock (uvloop leg) time passes by itself; only the cycle count is meaningful there
    realtime = bool(getattr(run, "realtime", False))

    def note_eff(T: int, cycle: int) -> bool:
        e = m.effective(m.task_scope.get(T))
        recent_eff.setdefault(T, []).append((cycle, e))
        del recent_eff[T][:-12]
        return e

    # C05: scopes during whose activity an enclosing scope was effectively cancelled at some observation.
    # A delivery of that enclosing scope may have hit the task; it is paid back by *that* scope's exit (or,
    # when the scope is hosted by another task, by nobody: `nForeign` in theorem C05_restored), not by the
    # exit of the inner scope - so if the enclosing cancellation is hidden behind a shield raised afterwards,
    # "back at the value on entry" is not what the inner exit owes.
    c05_taint: set[int] = set()

    for idx, ent in enumerate(hist):
        now, cycle, fl, kind = ent[0], ent[1], ent[2], ent[3]
        a = ent[4:]
        m.flags(fl)
        for L_, d_ in m.sc.items():
            if d_.get("active") and L_ not in c05_taint and d_.get("parent") is not None \
                    and m.effective(d_["parent"]):
                c05_taint.add(L_)
        for g_ in m.groups.values():
            # "siblings cancelled": from the moment a failure exists, the group scope is cancelled or
            # effectively cancelled (what the code tests before cancelling it) at some observation
            if g_.get("failed") and not g_.get("ended") and not g_.get("eff_seen"):
                sc_ = m.sc.get(g_["scope"])
                if sc_ is not None and (sc_["cancelled"] or m.effective(g_["scope"])):
                    g_["eff_seen"] = True

        # ---- C03 bookkeeping for blocked tasks
        for T, b in blocked.items():
            e = m.effective(m.task_scope.get(T))
            b["ever_eff"] = b["ever_eff"] or e
            if b["kind"] == "shchk":
                continue  # cancel_shielded_checkpoint is shielded by construction
            if e and b["cancelled_since"] is None:
                b["cancelled_since"] = cycle
                b["cancelled_time"] = now
            if not e:
                b["cancelled_since"] = None
            if b["cancelled_since"] is not None and not b["flagged"]:
                # a live delivery keeps the loop spinning, so neither many cycles nor any amount
                # of (virtual) time may pass while the task stays blocked
                if cycle - b["cancelled_since"] > LATENCY or (now > b["cancelled_time"] and not realtime):
                    b["flagged"] = True
                    grp = m.tasks.get(T, {}).get("group")
                    if grp is not None and any(
                            (m.tasks[u].get("finish") or "-") != "-" and not all(
                                is_cancel_code(x) for x in code_leaves(m.tasks[u]["finish"]))
                            for u in m.groups[grp]["children"] if u in m.tasks):
                        V["C02"].append(f"task {T} of group {grp} is not cancelled although a sibling has "
                                        f"failed (still blocked in {b['kind']})")
                    V["C03"].append(f"task {T} still blocked in {b['kind']} {cycle - b['cancelled_since']} cycles / "
                                    f"{now - b['cancelled_time']} time units after its scope became "
                                    f"effectively cancelled")

        if kind == "stmt":
            T = a[0]
            grp = m.tasks.get(T, {}).get("group")
            # C01: no step after the group's block has ended
            if grp is not None and m.groups.get(grp, {}).get("ended"):
                V["C01"].append(f"task {T} executed statement {a[1]!r} after its group {grp} block had ended")
        elif kind == "mkscope":
            L, T, sh, dl, key = a
            m.sc[L].update(key=key, deadline=dl)
        elif kind == "enter":
            L, T = a
            d = m.sc[L]
            d.update(parent=m.task_scope.get(T), active=True, host=T, entered=True)
            m.task_scope[T] = L
            entry_cancelling[L] = (T, last_cancelling.get(T, 0), natives[T], uncancels[T])
            if d["deadline"] is not None and now >= d["deadline"] and not d["cancelled"] and not d["key"].startswith(("g:", "h:")):
                V["C06"].append(f"scope {L} entered after its deadline but not cancelled on entry")
        elif kind == "cancel":
            L = a[0]
            if L in m.sc:
                m.sc[L]["explicit"] = True
        elif kind == "deadline":
            L, dl = a
            d = m.sc[L]
            d["deadline"] = dl
            if not d["cancelled"]:
                d.pop("fired_ok", None)
            else:
                d["fired_ok"] = True
        elif kind == "cancelling":
            T, n = a
            last_cancelling[T] = n
            # C05: right after an exit, once no enclosing scope is effectively cancelled, the native
            # cancellation-request count is back at its value on entry (+ native requests and user
            # uncancel() calls made meanwhile)
            prev = hist[idx - 1] if idx else None
            if prev is not None and prev[3] == "exit" and prev[5] == T:
                L = prev[4]
                ent0 = m.sc[L].get("c05")
                if ent0 is not None and L not in c05_taint and not m.effective(m.task_scope.get(T)):
                    _, c0, n0, u0 = ent0
                    want = c0 + (natives[T] - n0) - (uncancels[T] - u0)
                    if n != max(want, 0):
                        V["C05"].append(f"task {T} left scope {L} with cancelling()={n}, on entry {c0}, native "
                                        f"requests since {natives[T] - n0}, user uncancels {uncancels[T] - u0}")
        elif kind == "ncancel":
            natives[a[0]] += 1
            # Task.cancel() raises the request count at once (keeps the "value on entry" of a scope
            # entered before the next query exact)
            last_cancelling[a[0]] = last_cancelling.get(a[0], 0) + 1
        elif kind == "exit":
            L, T, evc, result, raised, caught = a
            d = m.sc[L]
            lv = code_leaves(evc)
            anyio_only = bool(lv) and all(x == "c" for x in lv)
            has_anyio = any(x == "c" for x in lv)
            # the unlinking happens first, then visibility is judged
            vis = m.parent_visible(L)
            absorb_ok = d["cancelled"] and not vis
            if evc.startswith("g:"):
                exp = ("swallowed" if anyio_only else "raised" if has_anyio else "passed") if absorb_ok else "passed"
            else:
                exp = "swallowed" if (absorb_ok and evc == "c") else "passed"
            if result != exp:
                V["C04"].append(f"exit of scope {L} with {evc}: {result}, reference semantics says {exp} "
                                f"(cancelled={d['cancelled']} parent-visible={vis})")
            if result == "raised":
                rest = [x for x in lv if x != "c"]
                if code_leaves(raised) != rest:
                    V["C04"].append(f"exit of scope {L}: re-raised {raised}, expected the non-cancellation leaves {rest}")
            if bool(caught) != (result in ("swallowed", "raised")):
                V["C04"].append(f"scope {L}: cancelled_caught={caught} but exit {result}")
            d["active"] = False
            m.task_scope[T] = d["parent"]
            d["exit_now"] = now
            # C05: native cancellation count restored once no enclosing scope is cancelled
            ent0 = entry_cancelling.get(L)
            d["c05"] = ent0
        elif kind == "block":
            T = a[0]
            e = m.effective(m.task_scope.get(T))
            blocked[T] = {"since": cycle, "cancelled_since": cycle if e else None, "kind": a[1],
                          "ever_eff": e, "flagged": False, "cancelled_time": now}
        elif kind == "op-end":
            T, label, c = a
            b = blocked.pop(T, None)
            if b is not None:
                e_now = m.effective(m.task_scope.get(T))
                ever = b["ever_eff"] or e_now
                if c == "c" and not ever:
                    V["C04"].append(f"task {T} got an AnyIO cancellation in {label} although its scope was "
                                    f"never effectively cancelled while it was blocked")
                if label == "shchk":
                    pass
                elif c == "-" and b["cancelled_since"] is not None and b["cancelled_since"] <= b["since"]:
                    quiet_ops[T] = quiet_ops.get(T, 0) + 1
                    if quiet_ops[T] > 3:
                        V["C03"].append(f"task {T}: {quiet_ops[T]} consecutive checkpoints completed normally "
                                        f"inside an effectively cancelled scope")
                else:
                    quiet_ops[T] = 0
        elif kind == "uncancel":
            if a[1] > 0:
                uncancels[a[0]] += 1
                last_cancelling[a[0]] = a[1] - 1  # a[1] = cancelling() just before the call
        elif kind == "genter":
            G, T, L = a
            m.sc[L].update(key="g:", parent=m.task_scope.get(T), active=True, host=T, entered=True)
            m.task_scope[T] = L
            m.groups[G] = {"scope": L, "host": T, "children": [], "ended": False, "body": None,
                           "explicit_before": False}
        elif kind == "spawn":
            G, T, me, L = a
            m.groups[G]["children"].append(T)
            m.tasks[T] = {"group": G, "finish": None, "hscope": L, "started": False, "via_start": False}
            m.sc[L].update(key="h:")
        elif kind == "start-begin":
            G, T, me, L = a
            m.groups[G]["children"].append(T)
            m.tasks[T] = {"group": G, "finish": None, "hscope": L, "started": False, "via_start": True,
                          "caller": me, "start_end": None, "natives_at_begin": natives[me]}
            starts[T] = m.tasks[T]
        elif kind == "start-refused":
            G, T, me = a
            if T in m.groups[G]["children"]:
                m.groups[G]["children"].remove(T)
            m.tasks.pop(T, None)
            starts.pop(T, None)
        elif kind == "child-start":
            T = a[0]
            info = m.tasks[T]
            L = info["hscope"]
            if L in m.sc:
                m.sc[L].update(key="h:", parent=m.groups[info["group"]]["scope"], active=True, host=T,
                               entered=True)
                m.task_scope[T] = L
            else:
                m.task_scope[T] = m.groups[info["group"]]["scope"]
            grp = info["group"]
            if m.groups[grp]["ended"]:
                V["C01"].append(f"task {T} started running after its group {grp} block had ended")
        elif kind == "started":
            m.tasks[a[0]]["started"] = True
            m.tasks[a[0]]["nstarted"] = m.tasks[a[0]].get("nstarted", 0) + 1
        elif kind == "started-refused":
            info = m.tasks.get(a[0], {})
            # a repeated started() is an error, unless the start() caller has been cancelled meanwhile
            if len(a) > 1 and a[1]:
                V["C07"].append(f"started() of task {a[0]} raised RuntimeError although the caller of start() "
                                f"had been cancelled")
            if info.get("via_start") and info.get("nstarted", 0) == 0:
                V["C07"].append(f"started() of task {a[0]} raised RuntimeError although it had not been "
                                f"called successfully before")
        elif kind == "failat":
            L, T, timeout, caught = a
            d = m.sc[L]
            due = d["deadline"] is not None and now >= d["deadline"]
            if bool(timeout) != (bool(caught) and due):
                V["C06"].append(f"fail_after scope {L}: TimeoutError raised={timeout}, cancelled_caught={caught}, "
                                f"deadline={d['deadline']}, now={now}")
        elif kind == "finish":
            T, c = a
            if T in m.tasks and T != 0:
                m.tasks[T]["finish"] = c
                G_ = m.tasks[T].get("group")
                if G_ in m.groups and c != "-" and not all(is_cancel_code(x) for x in code_leaves(c)):
                    m.groups[G_]["failed"] = True
                L = m.tasks[T].get("hscope")
                if L in m.sc:
                    m.sc[L]["active"] = False
                m.task_scope[T] = None
            blocked.pop(T, None)
        elif kind == "start-end":
            G, T, me, c = a
            info = m.tasks[T]
            info["start_end"] = c
            if natives[me] > info.get("natives_at_begin", 0):
                pass  # native Task.cancel() on the caller while inside start(): outside the claim
            elif c == "-":
                if not info["started"]:
                    V["C07"].append(f"start() of task {T} returned before the child called started()")
            else:
                if not info["started"]:
                    # the child must be gone before start() re-raises
                    if info["finish"] is None:
                        V["C07"].append(f"start() of task {T} raised {c} while the child had not terminated")
                    elif not is_cancel_code(c) or True:
                        fin = info["finish"]
                        if is_cancel_code(c) and fin not in ("-",) and not all(is_cancel_code(x) for x in code_leaves(fin)):
                            info["owed_to_group"] = code_leaves(fin)
                        if not is_cancel_code(c):
                            exp = "r" if fin == "-" else fin
                            if c != exp and not (is_cancel_code(fin or "")):
                                V["C07"].append(f"start() of task {T} raised {c}, child ended with {fin}")
        elif kind == "aexit-begin":
            G, T, c = a
            m.groups[G]["body"] = c
            if c != "-" and not all(is_cancel_code(x) for x in code_leaves(c)):
                m.groups[G]["failed"] = True
            m.groups[G]["natives_at_aexit"] = natives[T]
        elif kind == "aexit-end":
            G, T, c, handles = a
            g = m.groups[G]
            g["ended"] = True
            g["result"] = c
            g["cancelled_at_end"] = m.sc[g["scope"]]["cancelled"]
            L = g["scope"]
            m.sc[L]["active"] = False
            m.task_scope[T] = m.sc[L]["parent"]
            # ---- C01 join
            for u in g["children"]:
                fin = m.tasks[u]["finish"]
                if fin is None:
                    V["C01"].append(f"group {G} block ended while child task {u} had not terminated")
                if u in handles:
                    st, exc = handles[u]
                    if st not in ("FINISHED", "FAILED", "CANCELLED"):
                        V["C01"].append(f"group {G} ended but handle of task {u} reports {st}")
                    elif fin is not None:
                        want = "FINISHED" if fin == "-" else "CANCELLED" if is_cancel_code(fin) else "FAILED"
                        if st != want or (exc is not None and exc != fin):
                            V["C01"].append(f"handle of task {u}: status {st}/{exc}, coroutine ended with {fin}")
            g["native_in_aexit"] = natives[T] > g.get("natives_at_aexit", natives[T])
        elif kind == "handle":
            hk, L = a
            d = m.sc.get(L)
            if hk == "timeout" and d is not None and d["entered"] and not d["active"]:
                msg = f"deadline timer of scope {L} fired after the scope had been left"
                V["C05"].append(msg)
                V["C06"].append(msg)
        elif kind == "effdl":
            T, txt = a
            ref = m.eff_deadline(T)
            if txt != ref:
                V["C06"].append(f"current_effective_deadline() of task {T} = {txt}, reference {ref}")

        # ---- C06: deadline exactness on plain scopes (never missed / never early), every snapshot
        for L, d in m.sc.items():
            if d["key"].startswith(("g:", "h:")) or d["key"] == "?":
                continue
            if d["cancelled"] and not d["explicit"] and not d.get("fired_ok"):
                if d["deadline"] is None or not d["entered"]:
                    V["C06"].append(f"scope {L} cancelled without cancel() and without a due deadline")
                elif now < d["deadline"]:
                    V["C06"].append(f"scope {L} timed out early: now={now} deadline={d['deadline']}")
                else:
                    d["fired_ok"] = True
            if d["active"] and not d["cancelled"] and d["deadline"] is not None and now > d["deadline"]:
                V["C06"].append(f"scope {L} missed its deadline {d['deadline']} (now={now}, still not cancelled)")


    # ---- C02 (and the F2 part of C07), judged once the whole history is known: an error of a
    # start()ed child that had not called started() goes to the start() caller if that caller was
    # still waiting, otherwise to the group
    for G, g in m.groups.items():
        if not g.get("ended"):
            continue
        c = g["result"]
        L = g["scope"]
        expected: Counter = Counter(x for x in code_leaves(g["body"] or "-") if not is_cancel_code(x))
        undecided = False
        for u in g["children"]:
            info = m.tasks[u]
            fin = info["finish"] or "-"
            errs = [x for x in code_leaves(fin) if not is_cancel_code(x)]
            if not errs:
                continue
            if info.get("via_start") and not info["started"]:
                se = info.get("start_end")
                if se is None:
                    undecided = True
                    continue
                if not all(is_cancel_code(x) for x in code_leaves(se)) and se != "-":
                    continue  # delivered to the start() caller (checked by C07)
                owed = True
                if natives[info["caller"]] > info.get("natives_at_begin", 0):
                    undecided = True
                    continue
                got_leaves0 = code_leaves(c)
                if not all(x in got_leaves0 for x in errs):
                    V["C07"].append(f"error {errs} raised by start()ed task {u} after its starter was "
                                    f"cancelled surfaced nowhere (group {G} raised {c})")
            expected.update(errs)
        got_leaves = code_leaves(c)
        got = Counter(x for x in got_leaves if not is_cancel_code(x))
        if undecided:
            continue
        if got != expected:
            V["C02"].append(f"group {G} raised {c}; non-cancellation exceptions raised by body/children: "
                            f"{sorted(expected.elements())}")
        body_cancels = [x for x in code_leaves(g["body"] or "-") if is_cancel_code(x)]
        for u in g["children"]:
            fin = m.tasks[u]["finish"] or "-"
            if fin.startswith("g:"):  # a user-made group raised by a child keeps its own leaves
                body_cancels += [x for x in code_leaves(fin) if is_cancel_code(x)]
        if c.startswith("g:"):
            extra = Counter(x for x in got_leaves if is_cancel_code(x)) - Counter(body_cancels)
            if extra:
                V["C02"].append(f"group {G} reported cancellation exceptions as errors: {c}")
        if expected and not g.get("cancelled_at_end") and not g.get("eff_seen"):
            V["C02"].append(f"group {G}: a task failed but the group scope was not cancelled")
        if not expected and c not in ("-", "c", "n") and not all(is_cancel_code(x) for x in got_leaves):
            V["C02"].append(f"group {G}: nothing failed but the block raised {c}")
    if run.deadlock:
        for T, b in blocked.items():
            if m.effective(m.task_scope.get(T)):
                V["C03"].append(f"task {T} blocked forever in {b['kind']} inside an effectively cancelled scope")
    end_checks(run, V)
    return V


def end_checks(run: Any, V: dict[str, list[str]]) -> None:
    """whole-run checks: residue in the loop (C05), tasks blocked forever in a cancelled scope
    (C03) are reported by `analyze` through the deadlock flag"""
    pi = run.post_idle
    if pi:
        if pi.get("ready_left", 0) or pi.get("timers_left", 0):
            V["C05"].append(f"loop not idle after the program ended: {pi}")
        elif pi.get("extra_cycles", 0) > 4:
            V["C05"].append(f"callbacks kept the loop busy for {pi['extra_cycles']} cycles after the program ended")
    if run.error:
        V["C05"].append(run.error)
