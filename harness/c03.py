"""C03: kernel model trace validation + oracle (see harness/kcheck.py, harness/koracle.py)."""
import sys

from .kcheck import main

if __name__ == "__main__":
    sys.exit(main("C03", "Lean 4 theorems over the kernel LTS (asyncio tasks/futures/loop cycles + CancelScope + "
                  "TaskGroup + start) + trace validation of the real code against that model + history oracle"))
