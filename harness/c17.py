"""C17 TLS streams: faithful transport over any fragmentation, truncation detected.

REAL TLS on the real code: two `TLSStream.wrap` ends (OpenSSL through the `ssl` module, TLS 1.2
and TLS 1.3, a server certificate issued once per run by an in-memory `trustme` CA) talk over an
in-memory transport pair (`PipeEnd`, a custom `ByteStream`) that re-chunks the ciphertext with a
scripted fragmentation (1-byte chunks, fixed sizes, coalescing = everything available, random
splits from ctx.rng) and can end the byte stream of one direction after exactly k bytes
(truncation at every byte offset of a session: in the handshake, inside a record, between
records, before close_notify).  Everything runs under the virtual-time loop, so a pump loop that
forgets to flush its output shows up as a deadlock at once instead of a timeout.

Oracle (from the property text): bytes received == bytes sent, in order, in both directions at
once; every receive returns 1..max_bytes bytes; closing handshake => EndOfStream; truncated
transport => BrokenResourceError with standard_compatible, never EndOfStream; EndOfStream
without it; no transport read while the outgoing BIO holds unflushed bytes; no deadlock.

Model leg: the same session (message sizes, receive sizes, fragmentation script, truncation point
as a fraction of the direction's byte stream, close mode) is played by `md_tls` on two instances
of the Lean endpoint model; only outcomes are compared (how many bytes arrived intact, which
exception ended the stream) since OpenSSL's record boundaries are not observable.
"""

from __future__ import annotations

import random
import ssl
from typing import Any

import anyio
from anyio import BrokenResourceError, ClosedResourceError, EndOfStream
from anyio.abc import ByteStream
from anyio.streams.tls import TLSStream

from . import vloop
from .common import Ctx, Disagreement, Result, Violation, load_corpus, run_model

_CTX_CACHE: dict[str, tuple[ssl.SSLContext, ssl.SSLContext]] = {}
CERT_SOURCE = ""


def contexts(version: str) -> tuple[ssl.SSLContext, ssl.SSLContext]:
    """(server, client) contexts pinned to one protocol version; certificate from trustme"""
    global CERT_SOURCE
    if not _CTX_CACHE:
        import trustme

        ca = trustme.CA()
        cert = ca.issue_cert("localhost")
        CERT_SOURCE = "trustme in-memory CA (ECDSA), issued once per run"
        for v, tv in (("1.2", ssl.TLSVersion.TLSv1_2), ("1.3", ssl.TLSVersion.TLSv1_3)):
            sctx = ssl.SSLContext(ssl.PROTOCOL_TLS_SERVER)
            cctx = ssl.SSLContext(ssl.PROTOCOL_TLS_CLIENT)
            cert.configure_cert(sctx)
            ca.configure_trust(cctx)
            for c in (sctx, cctx):
                c.minimum_version = tv
                c.maximum_version = tv
                # as TLSStream.wrap does for its default context: do not let OpenSSL turn a
                # truncated stream into a clean close
                if hasattr(ssl, "OP_IGNORE_UNEXPECTED_EOF"):
                    c.options &= ~ssl.OP_IGNORE_UNEXPECTED_EOF
            _CTX_CACHE[v] = (sctx, cctx)
    return _CTX_CACHE[version]


def exc_name(e: BaseException) -> str:
    if isinstance(e, EndOfStream):
        return "eos"
    if isinstance(e, BrokenResourceError):
        return "broken"
    if isinstance(e, ClosedResourceError):
        return "closed"
    if isinstance(e, ssl.SSLError):
        return "sslerror"
    if isinstance(e, ValueError):
        return "valueerror"
    if isinstance(e, vloop.Deadlock):
        return "deadlock"
    return "exc:" + type(e).__name__


class PipeEnd(ByteStream):
    """One end of an in-memory byte pipe.  `frags` scripts the sizes of the chunks receive()
    hands out (0 = everything available; exhausted = everything available); `budget` is the
    number of bytes this end will still accept from its peer before the stream towards it ends
    (None = no truncation)."""

    def __init__(self, name: str) -> None:
        self.name = name
        self.buf = bytearray()
        self.ended = False
        self.event = anyio.Event()
        self.peer: PipeEnd = self
        self.frags: list[int] = []
        self.budget: int | None = None
        self.closed = False
        self.tls: Any = None
        self.unflushed_reads = 0
        self.total_in = 0
        self.reads = 0
        self.dropped = 0  # bytes the peer sent after the truncation point
        self.sending = False

    def _wake(self) -> None:
        self.event.set()
        self.event = anyio.Event()

    def _feed(self, data: bytes) -> None:
        if self.ended:
            self.dropped += len(data)
            return
        if self.budget is not None:
            self.dropped += max(0, len(data) - self.budget)
            data = data[: self.budget]
            self.budget -= len(data)
        self.buf += data
        self.total_in += len(data)
        if self.budget == 0:
            self.ended = True
        self._wake()

    def _end(self) -> None:
        self.ended = True
        self._wake()

    async def send(self, item: bytes) -> None:
        # like a socket stream: one sender at a time, and a send may suspend (back-pressure)
        if self.sending:
            raise anyio.BusyResourceError("sending to")
        self.sending = True
        try:
            await anyio.lowlevel.checkpoint()
            if self.closed:
                raise ClosedResourceError
            self.peer._feed(bytes(item))
        finally:
            self.sending = False

    async def receive(self, max_bytes: int = 65536) -> bytes:
        tls = self.tls
        bio = getattr(tls, "_write_bio", None) if tls is not None else None
        if bio is not None and bio.pending:
            self.unflushed_reads += 1
        await anyio.lowlevel.checkpoint()
        while not self.buf:
            if self.closed:
                raise ClosedResourceError
            if self.ended:
                raise EndOfStream
            await self.event.wait()
        want = self.frags.pop(0) if self.frags else 0
        k = len(self.buf) if want <= 0 else min(want, len(self.buf))
        k = min(k, max_bytes)
        chunk = bytes(self.buf[:k])
        del self.buf[:k]
        self.reads += 1
        return chunk

    async def send_eof(self) -> None:
        self.peer._end()

    async def aclose(self) -> None:
        if not self.closed:
            self.closed = True
            self.peer._end()
            self._wake()
        await anyio.lowlevel.checkpoint()


def payload(direction: int, total: int) -> bytes:
    return bytes((i + 100 * direction) % 251 for i in range(total))


async def play(case: dict) -> dict:  # noqa: C901
    """one whole session on the real code; returns the observable outcomes"""
    sctx, cctx = contexts(case["tls"])
    c_end, s_end = PipeEnd("c"), PipeEnd("s")
    c_end.peer, s_end.peer = s_end, c_end
    c_end.frags = list(case["frags_c"])
    s_end.frags = list(case["frags_s"])
    cut = case.get("cut")  # None | ["c2s"|"s2c", k]
    if cut:
        (s_end if cut[0] == "c2s" else c_end).budget = cut[1]
        if cut[1] == 0:
            (s_end if cut[0] == "c2s" else c_end).ended = True
    out: dict[str, Any] = {"hsC": "-", "hsS": "-", "endS": "-", "endC": "-", "closeC": "-",
                           "c2s": b"", "s2c": b"", "bounds": None}
    ends: dict[str, Any] = {}

    async def wrap(side: str) -> None:
        try:
            if side == "c":
                ends["c"] = await TLSStream.wrap(c_end, server_side=False, hostname="localhost",
                                                 ssl_context=cctx, standard_compatible=case["scC"])
            else:
                ends["s"] = await TLSStream.wrap(s_end, server_side=True, ssl_context=sctx,
                                                 standard_compatible=case["scS"])
            out["hsC" if side == "c" else "hsS"] = "ret"
        except Exception as e:  # noqa: BLE001
            out["hsC" if side == "c" else "hsS"] = exc_name(e)
            if cut:
                tg_hs.cancel_scope.cancel()

    async with anyio.create_task_group() as tg_hs:
        # the TLS object is not known to the pipe until wrap returns; attach it as soon as it
        # exists by polling from a helper is not possible, so the flush check covers the
        # handshake through the deadlock detector and the data phase through `unflushed_reads`
        tg_hs.start_soon(wrap, "c")
        tg_hs.start_soon(wrap, "s")
    if out["hsC"] != "ret" or out["hsS"] != "ret":
        out["hs_only"] = True
        return finish(out, c_end, s_end)
    tc, ts = ends["c"], ends["s"]
    c_end.tls, s_end.tls = tc, ts
    out["version"] = tc.extra(anyio.streams.tls.TLSAttribute.tls_version)
    d_c2s = payload(0, sum(case["c2s"]))
    d_s2c = payload(1, sum(case["s2c"]))

    async def writer(stream: TLSStream, data: bytes, sizes: list[int]) -> None:
        pos = 0
        for k in sizes:
            try:
                await stream.send(data[pos: pos + k])
            except Exception as e:  # noqa: BLE001
                out.setdefault("send_errors", []).append(exc_name(e))
                return
            pos += k

    async def reader(stream: TLSStream, key: str, endkey: str, total: int, sizes: list[int]) -> None:
        got = bytearray()
        i = 0
        while len(got) < total:
            n = sizes[i % len(sizes)]
            i += 1
            pc = case.get("precancel", 0)
            try:
                if pc and i % pc == 0:
                    # a receive() entered in an already cancelled scope either returns data or raises
                    # the cancellation; in the latter case it must not have consumed anything
                    chunk = b""
                    with anyio.CancelScope() as sc:
                        sc.cancel()
                        chunk = await stream.receive(n)
                    if sc.cancelled_caught and not chunk:
                        out["precancelled"] = out.get("precancelled", 0) + 1
                        await anyio.lowlevel.checkpoint()
                        continue
                else:
                    chunk = await stream.receive(n)
            except Exception as e:  # noqa: BLE001
                out[endkey] = exc_name(e)
                if cut:
                    # a truncated endpoint shuts down both of its BIOs: its own sends fail from
                    # now on, so the other direction cannot complete either
                    out[key] = bytes(got)
                    tg.cancel_scope.cancel()
                break
            if not 1 <= len(chunk) <= n:
                out["bounds"] = f"receive({n}) returned {len(chunk)} bytes"
                break
            got += chunk
        else:
            out[endkey] = "ret"
        out[key] = bytes(got)

    async with anyio.create_task_group() as tg:
        tg.start_soon(writer, tc, d_c2s, case["c2s"])
        tg.start_soon(writer, ts, d_s2c, case["s2c"])
        tg.start_soon(reader, ts, "c2s", "endS", len(d_c2s), case["recvS"])
        tg.start_soon(reader, tc, "s2c", "endC", len(d_s2c), case["recvC"])
    if out["endS"] != "ret" or out["endC"] != "ret":
        return finish(out, c_end, s_end)
    out["endS"] = out["endC"] = "-"

    async def one_more(stream: TLSStream, endkey: str) -> None:
        try:
            extra = await stream.receive(100)
            out[endkey] = f"data:{len(extra)}"
        except Exception as e:  # noqa: BLE001
            out[endkey] = exc_name(e)
            if out[endkey] in ("eos", "broken"):
                # the end of the stream is reported the same way every time it is asked for
                try:
                    extra = await stream.receive(100)
                    out[endkey + "_again"] = f"data:{len(extra)}"
                except Exception as e2:  # noqa: BLE001
                    out[endkey + "_again"] = exc_name(e2)

    if case["close"]:
        async def client_close() -> None:
            try:
                await tc.aclose()
                out["closeC"] = "ret"
            except Exception as e:  # noqa: BLE001
                out["closeC"] = exc_name(e)

        async def server_end() -> None:
            await one_more(ts, "endS")
            try:
                await ts.aclose()
            except Exception as e:  # noqa: BLE001
                out["closeS"] = exc_name(e)

        async with anyio.create_task_group() as tg:
            tg.start_soon(client_close)
            tg.start_soon(server_end)
    else:
        # both ends read once more; with a cut the victim's transport ends, without one nothing
        # more arrives (the model reports "blocked": here the deadlock detector would fire, so
        # only the victim reads)
        if cut:
            await one_more(ts if cut[0] == "c2s" else tc, "endS" if cut[0] == "c2s" else "endC")
    return finish(out, c_end, s_end)


def finish(out: dict, c_end: PipeEnd, s_end: PipeEnd) -> dict:
    out["unflushed_reads"] = c_end.unflushed_reads + s_end.unflushed_reads
    out["wire_c2s"] = s_end.total_in
    out["wire_s2c"] = c_end.total_in
    out["transport_reads"] = c_end.reads + s_end.reads
    out["dropped"] = c_end.dropped + s_end.dropped
    return out


def run_session(case: dict) -> dict:
    async def main() -> dict:
        with anyio.fail_after(600):
            return await play(case)

    try:
        res, _loop = vloop.run(main, max_cycles=3_000_000)
        return res
    except vloop.Deadlock:
        return {"fatal": "deadlock"}
    except vloop.CycleBudgetExceeded:
        return {"fatal": "busy-loop"}
    except BaseException as e:  # noqa: BLE001
        if isinstance(e, (KeyboardInterrupt, SystemExit)):
            raise
        inner: BaseException = e
        while isinstance(inner, BaseExceptionGroup) and inner.exceptions:
            inner = inner.exceptions[0]
        return {"fatal": f"{type(inner).__name__}: {inner}"}


# --------------------------------------------------------------------------- oracle


def oracle(case: dict, out: dict) -> str | None:  # noqa: C901
    if "fatal" in out:
        return f"session did not finish: {out['fatal']}"
    if out.get("bounds"):
        return out["bounds"]
    if out.get("unflushed_reads"):
        return "transport read started while the outgoing BIO held unflushed bytes"
    cut = case.get("cut")
    d_c2s = payload(0, sum(case["c2s"]))
    d_s2c = payload(1, sum(case["s2c"]))
    if out["c2s"] != d_c2s[: len(out["c2s"])]:
        return "client->server bytes differ from what was sent (order/duplication/corruption)"
    if out["s2c"] != d_s2c[: len(out["s2c"])]:
        return "server->client bytes differ from what was sent (order/duplication/corruption)"
    if not cut:
        if out["hsC"] != "ret" or out["hsS"] != "ret":
            return f"handshake failed without truncation: {out['hsC']}/{out['hsS']}"
        if out["c2s"] != d_c2s or out["s2c"] != d_s2c:
            return "not all bytes arrived on an intact transport"
        if out.get("send_errors"):
            return f"send failed on an intact transport: {out['send_errors']}"
        if case["close"]:
            want = "eos" if case["scC"] or not case["scS"] else "broken"
            if out["endS"] != want:
                return (f"peer closed {'with' if case['scC'] else 'without'} closing handshake, reader "
                        f"(standard_compatible={case['scS']}) got {out['endS']}, expected {want}")
            if out["closeC"] != "ret" and case["scS"]:
                return f"aclose() raised {out['closeC']} although the peer answered the closing handshake"
        return None
    if not out.get("dropped"):
        return None  # the byte stream ended before the truncation point: nothing was cut off
    victim_sc = case["scS"] if cut[0] == "c2s" else case["scC"]
    for k in ("endS", "endC"):
        if out.get(k + "_again") not in (None, out.get(k), "closed"):
            return (f"transport truncated after {cut[1]} bytes ({cut[0]}): the end was first reported as "
                    f"{out.get(k)!r}, a second receive() reported {out.get(k + '_again')!r}")
    hs, end = (out["hsS"], out["endS"]) if cut[0] == "c2s" else (out["hsC"], out["endC"])
    term = hs if hs != "ret" else end
    if case["close"] and term == "-" and hs == "ret":
        # the cut fell into the closing handshake: what the victim observed is in closeC / endS
        term = out["closeC"] if cut[0] == "s2c" else out["endS"]
    want = "broken" if victim_sc else "eos"
    if term != want:
        return (f"transport truncated after {cut[1]} bytes ({cut[0]}), standard_compatible={victim_sc}: "
                f"victim saw {term!r}, expected {want!r}")
    return None


# --------------------------------------------------------------------------- model leg


def csv(xs: list[int]) -> str:
    return ",".join(str(x) for x in xs) if xs else "-"


def model_line(case: dict, wire_total: int | None) -> str:
    cut = case.get("cut")
    if cut:
        num, den = cut[1], max(1, wire_total or 1)
        cd = cut[0]
    else:
        cd, num, den = "n", 0, 1
    frags = (case["frags_s"][:40] + case["frags_c"][:40])[:60]
    return (f"session {int(case['scC'])} {int(case['scS'])} {csv(case['c2s'])} {csv(case['s2c'])} "
            f"{csv(case.get('recs', []))} {csv([max(0, f - 1) for f in frags])} {csv(case['recvC'])} "
            f"{csv(case['recvS'])} {cd} {num} {den} {int(case['close'])}")


def canon_real(case: dict, out: dict) -> str:
    if "fatal" in out:
        return "fatal"
    cut = case.get("cut")
    if not cut:
        return (f"hs={out['hsC']}/{out['hsS']} c2s={len(out['c2s'])} s2c={len(out['s2c'])} "
                f"endS={out['endS']} closeC={out['closeC']}")
    hs, end = (out["hsS"], out["endS"]) if cut[0] == "c2s" else (out["hsC"], out["endC"])
    term = hs if hs != "ret" else end
    if case["close"] and term == "-" and hs == "ret":
        term = out["closeC"] if cut[0] == "s2c" else out["endS"]
    return f"victim={term}"


def canon_model(case: dict, line: str) -> str:
    f = dict(kv.split("=", 1) for kv in line.split() if "=" in kv)
    if "SCHEDULER-DISABLED" in line or "UNFLUSHED-READ" in line or not f:
        return "model:" + line
    cut = case.get("cut")
    if not cut:
        return (f"hs={f['hsC']}/{f['hsS']} c2s={f['c2s'].split('/')[0]} s2c={f['s2c'].split('/')[0]} "
                f"endS={f['endS']} closeC={f['closeC']}")
    hs, end = (f["hsS"], f["endS"]) if cut[0] == "c2s" else (f["hsC"], f["endC"])
    term = hs if hs != "ret" else end
    if case["close"] and term in ("-", "ret") and hs == "ret":
        term = f["closeC"] if cut[0] == "s2c" else f["endS"]
    return f"victim={term}"


# --------------------------------------------------------------------------- generator

SMALL_RECV = [1, 2, 3, 5, 7, 16, 100]
BIG_RECV = [1000, 4096, 16384, 16385, 65536]


def gen_frags(rng: random.Random, n: int) -> list[int]:
    mode = rng.choice(["one", "all", "fixed", "random", "mixed"])
    if mode == "one":
        return [1] * n
    if mode == "all":
        return []
    if mode == "fixed":
        return [rng.choice([2, 3, 5, 7, 64, 1000])] * n
    if mode == "random":
        return [rng.choice([1, 1, 2, 3, 5, 11, 50, 300, 5000]) for _ in range(n)]
    return [rng.choice([1, 0, 0, 4, 100]) for _ in range(n)]


def gen_session(rng: random.Random, big: bool) -> dict:
    if big:
        sizes = [0, 1, 100, 16383, 16384, 16385, 40000, 70000, 150000]
        c2s = [rng.choice(sizes) for _ in range(rng.randint(1, 4))]
        s2c = [rng.choice(sizes) for _ in range(rng.randint(0, 3))]
        recv = lambda: [rng.choice(BIG_RECV) for _ in range(3)]  # noqa: E731
        nfr = 400
    else:
        sizes = [0, 1, 1, 2, 3, 10, 50, 200]
        c2s = [rng.choice(sizes) for _ in range(rng.randint(1, 6))]
        s2c = [rng.choice(sizes) for _ in range(rng.randint(0, 5))]
        recv = lambda: [rng.choice(SMALL_RECV + BIG_RECV[:2]) for _ in range(rng.randint(1, 4))]  # noqa: E731
        nfr = 6000
    sc = rng.random() < 0.7
    scC, scS = (sc, sc) if rng.random() < 0.85 else (rng.random() < 0.5, rng.random() < 0.5)
    return {"tls": rng.choice(["1.2", "1.3"]), "scC": scC, "scS": scS, "c2s": c2s, "s2c": s2c,
            "recvC": recv(), "recvS": recv(), "frags_c": gen_frags(rng, nfr), "frags_s": gen_frags(rng, nfr),
            "recs": [rng.choice([0, 1, 4, 30, 16383]) for _ in range(6)],
            "precancel": rng.choice([0, 0, 2, 3]),
            "cut": None, "close": True}


def cut_offsets(rng: random.Random, total: int, how_many: int | None) -> list[int]:
    if how_many is None or how_many >= total:
        return list(range(total))
    pts = set(range(0, min(12, total))) | set(range(max(0, total - 40), total))
    while len(pts) < min(how_many, total):
        pts.add(rng.randrange(total))
    return sorted(pts)


# --------------------------------------------------------------------------- run


def evaluate(cases: list[dict], res: Result, wires: list[int | None]) -> None:
    outs = [run_session(c) for c in cases]
    lines = [model_line(c, w) for c, w in zip(cases, wires)]
    replies = run_model("tls", lines)
    st = res.stats.setdefault("outcomes", {})
    for case, out, rep in zip(cases, outs, replies):
        res.evaluations += 1
        cut = case.get("cut")
        kind = ("cut-" + cut[0]) if cut else ("close" if case["close"] else "open")
        key = f"tls{case['tls']}/sc={int(case['scC'])}{int(case['scS'])}/{kind}"
        st[key] = st.get(key, 0) + 1
        if "fatal" not in out:
            ends = res.stats.setdefault("end_of_stream", {})
            k2 = canon_real(case, out).split(" endS=")[-1] if not cut else canon_real(case, out)
            ends[k2] = ends.get(k2, 0) + 1
            res.stats["transport_reads"] = res.stats.get("transport_reads", 0) + out.get("transport_reads", 0)
            if out.get("hs_only"):
                res.stats["cut_in_handshake"] = res.stats.get("cut_in_handshake", 0) + 1
        bad = oracle(case, out)
        if bad:
            res.violations.append(Violation(case, bad, "C17:" + bad[:45]))
        real, mod = canon_real(case, out), canon_model(case, rep)
        if cut and "fatal" not in out and not out.get("dropped"):
            res.stats["cut_beyond_end_of_stream"] = res.stats.get("cut_beyond_end_of_stream", 0) + 1
            res.traces_validated += 1
            continue
        if real != mod:
            res.disagreements.append(Disagreement(case, f"implementation {real!r}, model {mod!r}"))
        else:
            res.traces_validated += 1
        if not bad and real == mod:
            res.nontrivial.add(hash((case["tls"], case["scC"], case["scS"], tuple(case["c2s"]), tuple(case["s2c"]),
                                     tuple(case["recvS"]), tuple(case["frags_s"][:8]), str(cut), case["close"])))
            if len(res.samples) < 4 and (cut or sum(case["c2s"]) > 100):
                res.samples.append({"case": {k: (v if k not in ("frags_c", "frags_s") else v[:8]) for k, v in case.items()},
                                    "outcome": real})


def run(ctx: Ctx) -> Result:
    res = Result(rule="every session over real TLS counts: handshake + duplex data with scripted re-chunking of "
                      "the ciphertext, then closing handshake, ragged close, or truncation of one direction after "
                      "k bytes; distinct = distinct (version, flags, sizes, receive sizes, fragmentation, cut)")
    contexts("1.3")
    res.stats["certificate"] = CERT_SOURCE
    res.stats["openssl"] = ssl.OPENSSL_VERSION
    corpus = load_corpus("C17")
    if corpus:
        evaluate(corpus, res, [c.get("_wire") for c in corpus])
    rng = ctx.rng
    # 1. intact sessions: small messages with all receive sizes and fragmentations, then big ones
    sess = [gen_session(rng, big=False) for _ in range(ctx.n(160, 4000))]
    sess += [gen_session(rng, big=True) for _ in range(ctx.n(25, 400))]
    for i in range(0, len(sess), 50):
        if ctx.time_left() < 25:
            break
        evaluate(sess[i: i + 50], res, [None] * len(sess[i: i + 50]))
    # 2. truncation at every byte offset of short sessions, both directions, both versions
    for version in ("1.2", "1.3"):
        for direction in ("c2s", "s2c"):
            for sc in (True, False):
                if ctx.time_left() < 12:
                    res.stats["truncation_sweeps_skipped"] = res.stats.get("truncation_sweeps_skipped", 0) + 1
                    continue
                base = gen_session(rng, big=False)
                base.update({"tls": version, "scC": sc, "scS": sc,
                             "c2s": [rng.choice([1, 5, 40]) for _ in range(rng.randint(1, 3))],
                             "s2c": [rng.choice([1, 7, 30]) for _ in range(rng.randint(1, 2))],
                             "close": True})
                base["frags_c"] = gen_frags(rng, 6000)
                base["frags_s"] = gen_frags(rng, 6000)
                probe = run_session(base)
                if "fatal" in probe:
                    res.violations.append(Violation(base, "intact session failed: " + probe["fatal"], "C17:intact"))
                    continue
                total = probe["wire_c2s"] if direction == "c2s" else probe["wire_s2c"]
                offs = cut_offsets(rng, total, None if ctx.tier == "thorough" else ctx.n(120, 120))
                cases = [{**base, "cut": [direction, k], "frags_c": list(base["frags_c"]),
                          "frags_s": list(base["frags_s"])} for k in offs]
                res.stats["truncation_points"] = res.stats.get("truncation_points", 0) + len(cases)
                for i in range(0, len(cases), 100):
                    if ctx.time_left() < 8:
                        break
                    evaluate(cases[i: i + 100], res, [total] * len(cases[i: i + 100]))
    return res


def replay(ctx: Ctx, case: Any) -> Result:
    res = Result(rule="replay")
    contexts("1.3")
    evaluate([case], res, [case.get("_wire")])
    return res


if __name__ == "__main__":
    import sys
    from .common import check_main

    sys.exit(check_main(
        "C17", run, replay=replay, models=["tls"], level="proof",
        technique_note="Lean 4 theorems over the TLS endpoint LTS (pump loop against an abstract record engine, "
                       "all event lists = all fragmentations and cut points) + real TLS 1.2/1.3 sessions over a "
                       "re-chunking, truncating in-memory transport, compared on outcomes; oracle from the "
                       "property text",
        assumptions=[
            "OpenSSL behaves like the abstract record engine: read() returns bytes of complete authenticated "
            "records only, in order, signals WantRead when no complete record is buffered, reports close_notify "
            "as a zero-length read and BIO EOF without it as SSLEOFError/UNEXPECTED_EOF_WHILE_READING",
            "the SSL context does not set OP_IGNORE_UNEXPECTED_EOF (TLSStream.wrap clears it on its default "
            "context; callers passing their own context must do the same)",
        ]))
