"""C19, tee(): the real `anyio.itertools.tee` driven step by step under the virtual-time loop.

A *case* is {"tee": {"n": consumers, "xs": source sequence, "mode": source kind, "fine": bool,
"extra": calls after the first StopAsyncIteration}, "choices": [int, ...]}.

The controller task repeatedly computes the enabled actions

    next i   consumer i is idle and still has calls to make: tell it to call `__anext__`
    src      (mode "gate") the source's `__anext__` is pending: let it answer
    tick     (fine-grained cases only) the loop has ready handles: let one loop cycle run

and takes the one the case's choice list selects (index modulo the number of enabled actions;
0 when the list is exhausted).  Coarse cases run the loop until it is quiet after every action,
so a choice list is an interleaving of "consumer i calls anext" and "the source answers"; all of
them are enumerated by depth-first search over the choice lists.  Source kinds: "gate" (answers
when told), "direct" (async iterator that never suspends), "sleep" (suspends once), "sync" (a
plain iterator, goes through `_IterableAsyncIterator`).

What the real code does is logged as the event list of the Lean LTS (`next i`, `step i`,
`src_yield`, `src_end` with outcomes susp / ret v / stop) and replayed by `md_tee`.

Oracle (from the property text): every consumer receives exactly the source sequence, then
StopAsyncIteration (also on further calls); the source's `__anext__` is invoked len+1 times.
"""

from __future__ import annotations

import asyncio
import itertools
import time
from typing import Any

import anyio.itertools as ai

from . import vloop
from .common import Ctx, Disagreement, Result, Violation, run_model


class TeeBench:
    def __init__(self, case: dict):
        cfg = case["tee"]
        self.case = case
        self.n: int = cfg["n"]
        self.xs: list[int] = list(cfg["xs"])
        self.mode: str = cfg.get("mode", "gate")
        self.fine: bool = bool(cfg.get("fine", False))
        self.extra: int = int(cfg.get("extra", 0))
        self.choices: list[int] = list(case.get("choices", []))
        self.taken: list[int] = []  # choices actually taken
        self.branch: list[int] = []  # number of enabled actions at each decision
        self.actions: list[str] = []
        self.lines: list[list[str]] = []
        self.open: list[int | None] = [None] * self.n
        self.in_op = [False] * self.n
        self.busy = [False] * self.n
        self.calls_left = [len(self.xs) + 1 + self.extra] * self.n
        self.seen: list[list[int]] = [[] for _ in range(self.n)]
        self.stops = [0] * self.n
        self.after_stop: list[list[str]] = [[] for _ in range(self.n)]
        self.index: dict[int, int] = {}
        self.src_calls = 0
        self.src_pos = 0
        self.in_src: int | None = None
        self.src_event: str | None = None  # sync mode: event to log at the next wake-up
        self.pending: asyncio.Future | None = None
        self.error: str | None = None
        self.stuck = False

    # ---- log
    def emit(self, req: str, reply: str | None = None) -> int:
        self.lines.append([req, reply if reply is not None else "?"])
        return len(self.lines) - 1

    def set_outcome(self, i: int, out: str) -> None:
        k = self.open[i]
        if k is not None:
            self.lines[k][1] = out
            self.open[i] = None

    def me(self) -> int:
        return self.index[id(asyncio.current_task())]

    # ---- loop hooks
    def on_handle(self, kind: str, who: Any, handle: Any) -> None:
        if kind in ("step", "wakeup") and isinstance(who, asyncio.Task):
            i = self.index.get(id(who))
            if i is None or i < 0 or not self.in_op[i]:
                return
            if self.in_src == i:
                if self.src_event is not None:  # sync source: this wake-up completes the adaptor
                    self.open[i] = self.emit(self.src_event)
                    self.src_event = None
                    self.in_src = None
                return  # inside the source: not a segment of tee
            self.open[i] = self.emit(f"step {i}")

    def after_handle(self, kind: str, who: Any, handle: Any) -> None:
        for i in range(self.n):
            if self.open[i] is not None:
                self.set_outcome(i, "susp")

    # ---- the source
    def source(self) -> Any:
        b = self

        class Async:
            def __aiter__(self) -> Any:
                return self

            async def __anext__(self) -> int:
                i = b.me()
                b.src_calls += 1
                b.set_outcome(i, "susp")  # the segment that called the source ends here
                b.in_src = i
                if b.mode == "gate":
                    b.pending = asyncio.get_running_loop().create_future()
                    await b.pending
                elif b.mode == "sleep":
                    await asyncio.sleep(0)
                b.in_src = None
                if b.src_pos < len(b.xs):
                    v = b.xs[b.src_pos]
                    b.src_pos += 1
                    b.open[i] = b.emit("src_yield")
                    return v
                b.open[i] = b.emit("src_end")
                raise StopAsyncIteration

        class Sync:
            def __iter__(self) -> Any:
                return self

            def __next__(self) -> int:
                i = b.me()
                b.src_calls += 1
                b.set_outcome(i, "susp")
                b.in_src = i
                if b.src_pos < len(b.xs):
                    v = b.xs[b.src_pos]
                    b.src_pos += 1
                    b.src_event = "src_yield"
                    return v
                b.src_event = "src_end"
                raise StopIteration

        return Sync() if self.mode == "sync" else Async()

    # ---- consumers
    async def consumer(self, i: int, it: Any, gate: list) -> None:
        while True:
            fut = asyncio.get_running_loop().create_future()
            gate[i] = fut
            await fut
            self.open[i] = self.emit(f"next {i}")
            self.in_op[i] = True
            try:
                v = await it.__anext__()
                out = f"ret {v}"
                if self.stops[i]:
                    self.after_stop[i].append(out)
                self.seen[i].append(v)
            except StopAsyncIteration:
                out = "stop"
                self.stops[i] += 1
            except asyncio.CancelledError:
                raise  # torn down by the bench while still waiting: reported as "stuck"
            except BaseException as e:  # noqa: BLE001
                out = "exc:" + type(e).__name__
                self.error = f"consumer {i}: __anext__ raised {type(e).__name__}: {e}"
            self.in_op[i] = False
            self.set_outcome(i, out)
            self.busy[i] = False
            if self.error:
                return

    def enabled(self, gate: list, loop: Any) -> list[tuple]:
        acts: list[tuple] = []
        if self.pending is not None and not self.pending.done():
            acts.append(("src",))
        for i in range(self.n):
            if not self.busy[i] and self.calls_left[i] > 0 and gate[i] is not None and not gate[i].done():
                acts.append(("next", i))
        if self.fine and len(loop._ready) > 0:
            acts.append(("tick",))
        return acts

    async def settle(self, loop: Any) -> None:
        while len(loop._ready) > 0:
            await asyncio.sleep(0)

    async def main(self) -> None:
        loop = asyncio.get_running_loop()
        its = ai.tee(self.source(), self.n)
        gate: list = [None] * self.n
        tasks = []
        for i in range(self.n):
            t = loop.create_task(self.consumer(i, its[i], gate))
            t._log_destroy_pending = False  # type: ignore[attr-defined]
            self.index[id(t)] = i
            tasks.append(t)
        await self.settle(loop)
        k = 0
        for _ in range(100000):
            acts = self.enabled(gate, loop)
            if not acts:
                break
            c = (self.choices[k] if k < len(self.choices) else 0) % len(acts)
            k += 1
            self.taken.append(c)
            self.branch.append(len(acts))
            a = acts[c]
            self.actions.append(" ".join(str(x) for x in a))
            if a[0] == "next":
                i = a[1]
                self.busy[i] = True
                self.calls_left[i] -= 1
                gate[i].set_result(None)
            elif a[0] == "src":
                assert self.pending is not None
                self.pending.set_result(None)
            if a[0] == "tick" or not self.fine:
                if self.fine:
                    await asyncio.sleep(0)
                else:
                    await self.settle(loop)
            if self.error:
                break
        await self.settle(loop)
        self.stuck = any(self.busy)
        for t in tasks:
            t.cancel()
        await asyncio.gather(*tasks, return_exceptions=True)

    def run(self) -> "TeeBench":
        self.emit("new " + " ".join(str(x) for x in [self.n, *self.xs]), "ok")
        try:
            vloop.run(self.main, on_handle=self.on_handle, after_handle=self.after_handle,
                      max_cycles=50000)
        except vloop.CycleBudgetExceeded:
            self.error = "cycle budget exceeded"
        except Exception as e:  # noqa: BLE001
            self.error = f"harness: {type(e).__name__}: {e}"
        self.emit("obs", f"calls={self.src_calls}")
        return self


def oracle(b: TeeBench) -> str | None:
    """the property text on the real code's history"""
    if b.error:
        return b.error
    if b.stuck:
        return f"consumers {[i for i in range(b.n) if b.busy[i]]} never got an answer from __anext__"
    for i in range(b.n):
        if b.seen[i] != b.xs:
            return (f"incomplete: consumer {i} of {b.n} observed {b.seen[i]} instead of the source sequence "
                    f"{b.xs}")
        if b.stops[i] != 1 + b.extra or b.after_stop[i]:
            return (f"end: consumer {i} got {b.stops[i]} StopAsyncIteration for {1 + b.extra} calls past the "
                    f"end {b.after_stop[i]}")
    if b.n > 0 and b.src_calls != len(b.xs) + 1:
        return f"once: the source's __anext__ was invoked {b.src_calls} times for {len(b.xs)} elements"
    return None


def run_one(case: dict) -> TeeBench:
    return TeeBench(case).run()


def check_batch(benches: list[TeeBench], res: Result) -> None:
    lines: list[str] = []
    for b in benches:
        lines += [r for r, _ in b.lines]
    replies = run_model("tee", lines)
    pos = 0
    st = res.stats.setdefault("tee", {})
    outc = st.setdefault("events", {})
    for b in benches:
        rep = replies[pos: pos + len(b.lines)]
        pos += len(b.lines)
        res.evaluations += 1
        st["runs"] = st.get("runs", 0) + 1
        case = dict(b.case, choices=b.taken)
        for r, o in b.lines[1:]:
            k = r.split()[0] + ":" + o.split()[0]
            outc[k] = outc.get(k, 0) + 1
        bad = oracle(b)
        if bad:
            res.violations.append(Violation(case, "tee: " + bad, "C19:tee:" + bad.split(":")[0].rstrip("0123456789 ")))
        d = None
        for j, ((req, exp), got) in enumerate(zip(b.lines, rep)):
            if exp != got:
                d = f"tee line {j}: request {req!r}: implementation {exp!r}, model {got!r}; actions {b.actions}"
                break
        if d:
            res.disagreements.append(Disagreement(case, d))
        else:
            res.traces_validated += 1
        contended = any(r.startswith("step") and o.startswith(("ret", "stop")) for r, o in b.lines)
        if contended or b.n >= 2:
            res.nontrivial.add(hash(tuple((r, o) for r, o in b.lines)))
        if contended and not any("tee" in s.get("case", {}) for s in res.samples):
            res.samples.append({"case": case, "actions": b.actions[:12],
                                "trace": [f"{r} -> {o}" for r, o in b.lines[:16]]})


def dfs(cfg: dict, cap: int, t_end: float):
    """all maximal choice lists of a coarse case, depth first; yields benches; returns whether
    the enumeration was complete via the attribute `complete` of the generator's last bench"""
    stack: list[list[int]] = [[]]
    count = 0
    while stack:
        if count >= cap or time.time() > t_end:
            return
        prefix = stack.pop()
        b = run_one({"tee": cfg, "choices": prefix})
        count += 1
        for depth in range(len(prefix), len(b.taken)):
            for alt in range(1, b.branch[depth]):
                stack.append(b.taken[:depth] + [alt])
        b.dfs_left = len(stack)  # type: ignore[attr-defined]
        yield b


def tee_args_check(res: Result) -> None:
    """tee(iterable, n) argument handling against itertools.tee (sequential consumption)"""

    async def go() -> list:
        out = []
        for n in (None, -2, -1, 0, 1, 2, 3):
            for xs in ([], [0], [0, 1, 2]):
                try:
                    its = ai.tee(list(xs), n) if n is not None else ai.tee(list(xs), None)  # type: ignore[arg-type]
                    got: Any = [[x async for x in it] for it in its]
                except Exception as e:  # noqa: BLE001
                    got = type(e).__name__
                try:
                    want: Any = [list(it) for it in itertools.tee(list(xs), n)]  # type: ignore[arg-type]
                except Exception as e:  # noqa: BLE001
                    want = type(e).__name__
                out.append((n, xs, got, want))
        return out

    for n, xs, got, want in asyncio.run(go()):
        res.evaluations += 1
        if got != want:
            res.violations.append(Violation({"tee_args": {"n": n, "xs": xs}},
                                            f"tee({xs}, {n}) consumed one after the other gives {got}, "
                                            f"itertools.tee gives {want}", "C19:tee:args"))


def run_tee(ctx: Ctx, res: Result, corpus: list, t_end: float) -> None:
    st = res.stats.setdefault("tee", {})
    tee_args_check(res)
    batch: list[TeeBench] = []

    def flush() -> None:
        if batch:
            check_batch(batch, res)
            batch.clear()

    for case in corpus:
        batch.append(run_one(case))
    # 1. coarse interleavings, exhaustively, smallest configurations first
    full: list[str] = []
    partial: list[str] = []
    cap = ctx.n(1500, 400000)
    configs = []
    for total in range(0, 8):
        for n in (1, 2, 3):
            L = total - n
            if 0 <= L <= 4:
                for mode in ("gate", "direct", "sync", "sleep"):
                    if mode != "gate" and (n, L) not in (
                            ((2, 2), (3, 1), (2, 4)) if ctx.tier == "quick" else ((2, 2), (3, 1), (2, 4), (3, 2))):
                        continue
                    configs.append({"n": n, "xs": list(range(5, 5 + L)), "mode": mode, "fine": False,
                                    "extra": 1 if (L <= 1 and mode == "gate") else 0})

    def explore(cfg: dict) -> None:
        if time.time() > t_end:
            partial.append(f"n={cfg['n']} len={len(cfg['xs'])} {cfg['mode']}: not started")
            return
        cnt = 0
        left = 0
        for b in dfs(cfg, cap, t_end):
            batch.append(b)
            cnt += 1
            left = b.dfs_left  # type: ignore[attr-defined]
            if len(batch) >= 400:
                flush()
        tag = f"n={cfg['n']} len={len(cfg['xs'])} {cfg['mode']}: {cnt}"
        if left:
            # too many interleavings for this tier: add uniformly random schedules of this config
            extra_n = ctx.n(300, 20000)
            for _ in range(extra_n):
                if time.time() > t_end:
                    break
                batch.append(run_one({"tee": cfg, "choices": [ctx.rng.randint(0, 11) for _ in range(60)]}))
                if len(batch) >= 400:
                    flush()
            tag += f" by DFS (not exhausted) + {extra_n} random"
        (full if left == 0 else partial).append(tag)

    big = [c for c in configs if c["mode"] == "gate" and c["n"] == 3 and len(c["xs"]) >= 2
           or c["mode"] == "gate" and c["n"] == 2 and len(c["xs"]) >= 4]
    t_total = t_end
    # 1a. the small configurations
    t_end = time.time() + 0.35 * max(t_total - time.time(), 0.0)
    for cfg in configs:
        if cfg not in big:
            explore(cfg)
    flush()
    # 2. random schedules: larger coarse cases and fine-grained ones (loop cycles as letters)
    t_end = time.time() + 0.45 * max(t_total - time.time(), 0.0)
    nrand = ctx.n(500, 30000)
    for k in range(nrand):
        if time.time() > t_end:
            st["random_cut"] = k
            break
        n = ctx.rng.randint(1, 3)
        L = ctx.rng.randint(0, 4)
        cfg = {"n": n, "xs": [ctx.rng.randint(0, 2) for _ in range(L)],
               "mode": ctx.rng.choice(("gate", "gate", "direct", "sync", "sleep")),
               "fine": ctx.rng.random() < 0.7, "extra": ctx.rng.randint(0, 1)}
        batch.append(run_one({"tee": cfg, "choices": [ctx.rng.randint(0, 5) for _ in range(80)]}))
        if len(batch) >= 400:
            flush()
    flush()
    st["random_runs"] = nrand
    # 1b. the large configurations with what is left of the time
    t_end = t_total
    for cfg in big:
        explore(cfg)
    flush()
    st["coarse_exhaustive"] = full
    st["coarse_partial"] = partial


def replay_tee(case: dict, res: Result) -> None:
    if "tee_args" in case:
        tee_args_check(res)
        return
    check_batch([run_one(case)], res)
