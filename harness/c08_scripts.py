"""Scripted event lists tying each modelled C08 cell to its Lean model: every request must get
exactly the listed reply from the model's driver (written and verified by the C08 prover)."""

LOCK0 = "locked=0 owner=- waiters=0"
SEM2 = "value=2 waiters=0"
LIM0 = "borrowed=0 total=2 available=2 waiting=0 borrowers="
CND0 = "locked=0 owner=- lockwaiters=0 waiting=0"
CND1 = "locked=1 owner=0 lockwaiters=0 waiting=0"

MODEL_SCRIPTS: dict[str, tuple[str, list[str], bool]] = {
    "Lock.acquire[free,fast=0]": ("lock", [
        "new 0->ok", "obs->"+LOCK0,
        "acquire 0 1->susp", "obs->"+LOCK0, "step 0->susp", "obs->"+LOCK0, "mc 0->env", "step 0->cancelled",
        "obs->"+LOCK0,
        "acquire 0 0->susp", "obs->locked=1 owner=0 waiters=0", "step 0->ret",
        "obs->locked=1 owner=0 waiters=0"], True),
    "Lock.acquire[free,fast=1]": ("lock", [
        "new 1->ok", "acquire 0 1->susp", "obs->"+LOCK0, "mc 0->env",
        "step 0->cancelled", "obs->"+LOCK0, "acquire 0 0->ret", "obs->locked=1 owner=0 waiters=0"], False),
    "Semaphore.acquire[value>0,fast=0]": ("sem", [
        "new 0 2 -->ok", "obs->"+SEM2,
        "acquire 0 1->susp", "obs->"+SEM2, "step 0->susp", "mc 0->env", "step 0->cancelled", "obs->"+SEM2,
        "acquire 0 0->susp", "obs->value=1 waiters=0", "step 0->ret", "obs->value=1 waiters=0"], True),
    "Semaphore.acquire[value>0,fast=1]": ("sem", [
        "new 1 2 -->ok", "acquire 0 1->susp", "obs->"+SEM2, "mc 0->env", "step 0->cancelled", "obs->"+SEM2,
        "acquire 0 0->ret", "obs->value=1 waiters=0"], False),
    "CapacityLimiter.acquire[free]": ("limiter", [
        "new 2->ok", "obs->"+LIM0,
        "acquire 0 1->susp", "obs->"+LIM0, "step 0->susp", "mc 0->env", "step 0->cancelled", "obs->"+LIM0,
        "acquire 0 0->susp", "obs->borrowed=1 total=2 available=1 waiting=0 borrowers=0", "step 0->ret",
        "obs->borrowed=1 total=2 available=1 waiting=0 borrowers=0"], True),
    "CapacityLimiter.acquire_on_behalf_of[free]": ("limiter", [
        "new 2->ok",
        "acquire_on_behalf_of 0 100 1->susp", "obs->"+LIM0, "mc 0->env", "step 0->cancelled", "obs->"+LIM0,
        "acquire_on_behalf_of 0 100 0->susp", "obs->borrowed=1 total=2 available=1 waiting=0 borrowers=100",
        "step 0->ret", "obs->borrowed=1 total=2 available=1 waiting=0 borrowers=100"], True),
    "Condition.acquire[free]": ("cond", [
        "new 0->ok", "obs->"+CND0,
        "acquire 0 1->susp", "obs->"+CND0, "step 0->susp", "mc 0->env", "step 0->cancelled", "obs->"+CND0,
        "acquire 0 0->susp", "obs->"+CND1, "step 0->ret", "obs->"+CND1], True),
    "Condition.wait[cancelled scope keeps the lock]": ("cond", [
        "new 0->ok", "acquire 0 0->susp", "step 0->ret", "obs->"+CND1,
        "wait 0 1->susp", "obs->"+CND1, "step 0->susp", "obs->"+CND1, "mc 0->env", "step 0->cancelled",
        "obs->"+CND1, "release 0->ret", "obs->"+CND0], False),
    "Event.wait[set]": ("event", [
        "new->ok", "set->ret", "obs->set=1 waiting=0",
        "wait 0 1->susp", "obs->set=1 waiting=0", "mc 0->env", "step 0->cancelled", "obs->set=1 waiting=0",
        "wait 0 0->susp", "obs->set=1 waiting=0", "step 0->ret", "obs->set=1 waiting=0"], True),
    "MemoryStream.send[buffer has room]": ("mem", [
        "new 1->ok", "obs->used=0 max=1 os=1 or=1 ws=0 wr=0",
        "send 0 0 1 1->susp", "obs->used=0 max=1 os=1 or=1 ws=0 wr=0", "step 0 -->DISABLED", "mc 0->env",
        "step 0 -->cancelled", "obs->used=0 max=1 os=1 or=1 ws=0 wr=0",
        "send 0 0 2 0->susp", "obs->used=0 max=1 os=1 or=1 ws=0 wr=0", "step 0 -->ret",
        "obs->used=1 max=1 os=1 or=1 ws=0 wr=0"], True),
    "MemoryStream.send[receiver waiting]": ("mem", [
        "new 0->ok", "receive 1 0 0->susp", "step 1 -->susp", "obs->used=0 max=0 os=1 or=1 ws=0 wr=1",
        "send 0 0 1 1->susp", "obs->used=0 max=0 os=1 or=1 ws=0 wr=1", "mc 0->env", "step 0 -->cancelled",
        "obs->used=0 max=0 os=1 or=1 ws=0 wr=1",
        "send 0 0 2 0->susp", "obs->used=0 max=0 os=1 or=1 ws=0 wr=1", "step 0 -->ret",
        "obs->used=0 max=0 os=1 or=1 ws=0 wr=0", "step 1 -->item 2"], True),
    "MemoryStream.receive[item buffered]": ("mem", [
        "new 2->ok", "send_nowait 0 0 7 -->ret", "obs->used=1 max=2 os=1 or=1 ws=0 wr=0",
        "receive 0 0 1->susp", "obs->used=1 max=2 os=1 or=1 ws=0 wr=0", "step 0 -->DISABLED", "mc 0->env",
        "step 0 -->cancelled", "obs->used=1 max=2 os=1 or=1 ws=0 wr=0",
        "receive 0 0 0->susp", "obs->used=1 max=2 os=1 or=1 ws=0 wr=0", "step 0 -->item 7",
        "obs->used=0 max=2 os=1 or=1 ws=0 wr=0"], True),
    "MemoryStream.receive[sender waiting]": ("mem", [
        "new 0->ok", "send 1 0 9 0->susp", "step 1 -->susp", "obs->used=0 max=0 os=1 or=1 ws=1 wr=0",
        "receive 0 0 1->susp", "obs->used=0 max=0 os=1 or=1 ws=1 wr=0", "mc 0->env", "step 0 -->cancelled",
        "obs->used=0 max=0 os=1 or=1 ws=1 wr=0",
        "receive 0 0 0->susp", "obs->used=0 max=0 os=1 or=1 ws=1 wr=0", "step 0 -->item 9",
        "obs->used=0 max=0 os=1 or=1 ws=0 wr=0", "step 1 -->ret"], True),
}

_YIELD = ("kernel", ["new->ok", "0 mkscope 1 0 -->ok", "0 enter 1->ok", "0 cancel 1->ok", "0 yield->susp",
                     "cycle 0->ok", "run deliver 1->ok", "run step 0->resumed c", "new->ok", "0 yield->susp",
                     "cycle 0->ok", "run step 0->resumed -"], True)
_HWAIT = ("kernel", ["new->ok", "0 mkgroup 1 1->ok", "0 genter 1->ok", "0 spawn 1 1 2->ok", "0 yield->susp",
                     "cycle 0->ok", "run step 1->resumed -", "1 finish -->ok", "run step 0->resumed -",
                     "q status 1->finished", "0 mkscope 3 0 -->ok", "0 enter 3->ok", "0 cancel 3->ok",
                     "0 hwait 1->susp", "q status 1->finished", "cycle 0->ok", "run taskdone 1->ok",
                     "run deliver 3->ok", "run step 0->resumed c", "0 exit 3 c->exit swallowed",
                     "0 hwait 1->susp", "cycle 0->ok", "run step 0->resumed -", "q status 1->finished"], True)
MODEL_SCRIPTS.update({
    "sleep(0)": _YIELD,
    "sleep_until(past)": _YIELD,
    "lowlevel.checkpoint": _YIELD,
    "TaskGroup exit[no children]": ("kernel", ["new->ok", "0 mkgroup 1 1->ok", "0 genter 1->ok",
                                                "0 aexit 1 -->susp", "cycle 0->ok", "run step 0->done -"], True),
    "TaskHandle.wait[finished]": _HWAIT,
    "await TaskHandle[finished]": _HWAIT,
})
