"""Kernel bench (C01-C07): interprets generated programs against the real AnyIO cancel
scopes / task groups on the virtual-time loop and logs, in the vocabulary of the Lean kernel
model (lean/Driver/Kernel.lean), every API call, every loop handle and what the real code did.

Program = {"main": [stmt...], "tasks": {name: [stmt...]}, "nfuts": k}

Statements (lists):
  ["yield"] ["sleep", d] ["await", F] ["set", F] ["chkif"] ["shchk"]
  ["scope", {"k": key, "shield": b, "deadline": d|None, "pre": b}, body]
  ["cancel", key] ["shield", key, b] ["deadline", key, d|None] ["cbcancel", key]
  ["group", {"k": key}, body]   with ["spawn", key, name] / ["start", key, name] inside or elsewhere
  ["raise", n] ["catch", body] ["catchall", body] ["finally", body, cleanup]
  ["ncancel", name] ["uncancel"] ["hcancel", name] ["hwait", name] ["started"]
  ["effdl"]  (query current_effective_deadline)

Scopes, groups are referred to by their static key (latest instance); tasks by body name
(latest instance).  A reference to something that does not exist yet is skipped.
"""

from __future__ import annotations

import asyncio
import math
from typing import Any

import anyio
from anyio import CancelScope

from . import vloop


def is_anyio_cancellation(exc: BaseException) -> bool:
    """Reference reading (the harness's own, NOT the library's function, which is under test): a
    CancelledError is AnyIO's if it carries a cancel scope's message, or directly replaced - through a
    chain of CancelledErrors only - one that does.  An ordinary exception in between breaks the chain."""
    while isinstance(exc, asyncio.CancelledError):
        if exc.args and isinstance(exc.args[0], str) and exc.args[0].startswith("Cancelled via cancel scope "):
            return True
        exc = exc.__context__  # type: ignore[assignment]
    return False


def handle_scope(handle: Any) -> Any:
    """the cancel scope of a TaskHandle (it has no public accessor): the attribute holding a CancelScope"""
    sc = getattr(handle, "_cancel_scope", None)
    if isinstance(sc, CancelScope):
        return sc
    names = list(getattr(type(handle), "__slots__", ())) + list(getattr(handle, "__dict__", {}))
    for n in names:
        v = getattr(handle, n, None)
        if isinstance(v, CancelScope):
            return v
    raise AttributeError("TaskHandle without a cancel scope attribute")


def handle_exception(handle: Any) -> BaseException | None:
    """what the task ended with, through the public API: `exception` returns it for a failed task and
    raises TaskCancelled *from* it for a cancelled one"""
    try:
        return handle.exception
    except BaseException as e:  # noqa: BLE001  (TaskCancelled)
        return e.__cause__


class Err(Exception):
    def __init__(self, n: int):
        super().__init__(n)
        self.n = n

    def __bool__(self) -> bool:
        # every third error object is falsy (like an exception type defining __len__/__bool__): code
        # that tests `if exc:` where it means `if exc is not None:` treats it as "nothing was raised"
        return self.n % 3 != 0


def leaves(e: BaseException) -> list[BaseException]:
    if isinstance(e, BaseExceptionGroup):
        out: list[BaseException] = []
        for x in e.exceptions:
            out += leaves(x)
        return out
    return [e]


def exc1(e: BaseException) -> str:
    if isinstance(e, asyncio.CancelledError):
        return "c" if is_anyio_cancellation(e) else "n"
    if isinstance(e, Err):
        return f"e{e.n}"
    if isinstance(e, RuntimeError):
        return "r"
    if isinstance(e, TimeoutError):
        return "e0"  # the TimeoutError of fail_after: an ordinary error as far as the kernel goes
    return "x" + type(e).__name__


def evcode(e: BaseException | None) -> str:
    """classification as AnyIO itself sees the exception (is_anyio_cancellation also looks at
    CancelledErrors in the __context__ chain): used for what the program hands to __exit__ etc."""
    if e is None:
        return "-"
    if isinstance(e, BaseExceptionGroup):
        return "g:" + ",".join(exc1(x) for x in leaves(e))
    return exc1(e)


def own1(e: BaseException) -> str:
    if isinstance(e, asyncio.CancelledError):
        a = e.args
        return "c" if a and isinstance(a[0], str) and a[0].startswith("Cancelled via cancel scope ") else "n"
    return exc1(e)


def owncode(e: BaseException | None) -> str:
    """classification by the exception's own message only: what an operation raised, as
    predicted by the model (which does not model exception chaining)"""
    if e is None:
        return "-"
    if isinstance(e, BaseExceptionGroup):
        return "g:" + ",".join(own1(x) for x in leaves(e))
    return own1(e)


class KRun:
    def __init__(self, program: dict, *, eager: bool = False, queries: bool = True):
        self.p = program
        self.eager = eager
        self.queries = queries
        self.lines: list[list] = []
        self.open: dict[int, int | None] = {}
        self.task_label: dict[int, int] = {}  # id(asyncio task) -> T
        self.task_obj: dict[int, asyncio.Task] = {}
        self.scope_label: dict[int, int] = {}  # id(scope) -> L
        self.keep: list[Any] = []
        self.scope_objs: dict[int, Any] = {}  # L -> scope object (user-visible scopes only)
        self.scope_by_key: dict[str, tuple[int, CancelScope]] = {}
        self.group_by_key: dict[str, tuple[int, Any]] = {}
        self.task_by_name: dict[str, tuple[int, Any]] = {}  # name -> (T, TaskHandle)
        self.handles: dict[int, Any] = {}  # T -> TaskHandle
        self.events: list[Any] = []
        self.final_exc: dict[int, tuple[BaseException, str]] = {}  # T -> (final exception, its code)
        self.amb: dict[int, int] = {}  # T -> depth of cleanups running with an AnyIO cancellation in flight
        self.ev_waiters: list[list[int]] = []
        self.nF = 0
        self.natives: dict[int, int] = {}
        self.user_uncancels: dict[int, int] = {}
        self.nT = 1
        self.nL = 0
        self.nG = 0
        self.unknown_run: int | None = None
        self.deadlock = False
        self.error: str | None = None
        self.history: list[tuple] = []  # oracle-level history
        self.status: dict[int, Any] = {}
        self.loop: vloop.VLoop | None = None
        self.root_started = False
        self.cycles_at_end = 0
        self.post_idle: dict[str, Any] = {}

    # ------------------------------------------------------------------ logging
    def emit(self, req: str, reply: str | None) -> int:
        self.lines.append([req, reply if reply is not None else "?"])
        return len(self.lines) - 1

    def close(self, T: int, txt: str) -> None:
        i = self.open.get(T)
        if i is not None:
            self.lines[i][1] = txt
            self.open[T] = None

    def hist(self, *a: Any) -> None:
        """oracle-level history entry: (now, cycle, flags, kind, ...) where flags is a snapshot of
        the public cancel_called / shield properties of every scope created by the program"""
        flags = {L: (sc.cancel_called, sc.shield) for L, sc in self.scope_objs.items()}
        self.history.append((self.now(), self.loop.cycle if self.loop else 0, flags) + a)

    unit = 1.0  # seconds per program time unit (1 on the virtual clock)
    t0 = 0.0

    def now(self) -> int:
        return int(round((self.loop.time() - self.t0) / self.unit)) if self.loop else 0

    def reg_scope(self, sc: Any) -> int:
        L = self.nL
        self.nL += 1
        self.scope_label[id(sc)] = L
        self.scope_objs[L] = sc
        self.keep.append(sc)
        return L

    # ------------------------------------------------------------------ loop hooks
    def on_cycle(self, cycle: int) -> None:
        if self.root_started:
            self.emit(f"cycle {self.now()}", "ok")

    def on_handle(self, kind: str, who: Any, handle: Any) -> None:
        if kind in ("step", "wakeup"):
            T = self.task_label.get(id(who))
            if T == 0 and not self.root_started:
                self.root_started = True
                return
            if T is None:
                # a child's first step: it registers itself when it starts running
                self.unknown_run = self.emit(f"run {kind} ?", None)
                return
            self.open[T] = self.emit(f"run {kind} {T}", None)
        elif kind in ("deliver", "timeout"):
            L = self.scope_label.get(id(who))
            self.emit(f"run {kind} {'?' if L is None else L}", "ok")
            if L is not None:
                self.hist("handle", kind, L)
        elif kind == "taskdone":
            T = self.task_label.get(id(who))
            self.emit(f"run taskdone {'?' if T is None else T}", "ok")
        elif kind == "other" and "_set_result_unless_cancelled" in str(who):
            fut = handle._args[0]
            T = None
            for tid, task in self.task_obj.items():
                if task._fut_waiter is fut:  # type: ignore[attr-defined]
                    T = tid
            self.emit(f"run sleepdone {'?' if T is None else T}", "ok")

    def after_handle(self, kind: str, who: Any, handle: Any) -> None:
        for T, i in self.open.items():
            if i is not None:
                self.lines[i][1] = "susp"
                self.open[T] = None

    # ------------------------------------------------------------------ helpers
    async def op(self, me: int, req: str, kind: str, aw: Any) -> Any:
        label = req.split()[1]
        self.hist("block", me, label)
        self.open[me] = self.emit(req, None)
        try:
            r = await aw
        except BaseException as e:
            self.close(me, f"{kind} {owncode(e)}")
            self.hist("op-end", me, label, owncode(e))
            self.q_cancelling(me)
            raise
        self.close(me, f"{kind} -")
        self.hist("op-end", me, label, "-")
        self.q_cancelling(me)
        return r

    def q_cancelling(self, me: int) -> None:
        if self.queries:
            t = self.task_obj[me]
            self.emit(f"q cancelling {me}", str(t.cancelling()))
            self.hist("cancelling", me, t.cancelling())

    def q_scope(self, L: int, sc: CancelScope) -> None:
        if self.queries:
            self.emit(f"q scope {L}",
                      f"cc={int(sc.cancel_called)} caught={int(sc.cancelled_caught)} shield={int(sc.shield)}")

    def handle_snapshot(self) -> dict[int, tuple]:
        out = {}
        for T, h in self.handles.items():
            st = h.status.name
            exc = None
            if st in ("FAILED", "CANCELLED"):
                exc = evcode(handle_exception(h))
            out[T] = (st, exc)
        return out

    def abs_deadline(self, d: Any) -> tuple[float, str]:
        if d is None:
            return math.inf, "-"
        v = self.now() + int(d)
        return self.t0 + float(v) * self.unit, str(v)

    # ------------------------------------------------------------------ interpreter
    async def body(self, me: int, stmts: list) -> None:
        for s in stmts:
            await self.stmt(me, s)

    async def stmt(self, me: int, s: list) -> None:  # noqa: C901
        k = s[0]
        self.hist("stmt", me, k)
        if k == "yield":
            await self.op(me, f"{me} yield", "resumed", asyncio.sleep(0))
        elif k == "sleep":
            await self.op(me, f"{me} sleep {s[1]}", "done", anyio.sleep(s[1] * self.unit))
        elif k == "await":
            # anyio.Event.wait(): a set event is a plain checkpoint, otherwise a fresh future per waiter
            ev = self.events[s[1]]
            if ev.is_set():
                await self.op(me, f"{me} yield", "resumed", ev.wait())
            else:
                F = self.nF
                self.nF += 1
                self.emit(f"{me} mkfut {F}", "ok")
                self.ev_waiters[s[1]].append(F)
                await self.op(me, f"{me} await {F}", "resumed", ev.wait())
        elif k == "set":
            ev = self.events[s[1]]
            if not ev.is_set():
                for F in self.ev_waiters[s[1]]:
                    self.emit(f"{me} setfut {F}", "ok")
                ev.set()
        elif k == "chkif":
            await self.op(me, f"{me} chkif", "done", anyio.lowlevel.checkpoint_if_cancelled())
        elif k == "shchk":
            await self.op(me, f"{me} shchk", "done", anyio.lowlevel.cancel_shielded_checkpoint())
        elif k == "scope":
            await self.scope_stmt(me, s[1], s[2])
        elif k == "cancel":
            ent = self.scope_by_key.get(s[1])
            if ent:
                self.emit(f"{me} cancel {ent[0]}", "ok")
                self.hist("cancel", ent[0], me)
                ent[1].cancel()
        elif k == "cbcancel":
            ent = self.scope_by_key.get(s[1])
            if ent:
                def cb(ent: Any = ent) -> None:
                    self.emit(f"- cancel {ent[0]}", "ok")
                    self.hist("cancel", ent[0], None)
                    ent[1].cancel()
                asyncio.get_running_loop().call_soon(cb)
        elif k == "shield":
            ent = self.scope_by_key.get(s[1])
            # only the scope's host toggles its shield (DESIGN section 4)
            if ent and ent[1]._host_task is asyncio.current_task():  # type: ignore[attr-defined]
                self.emit(f"{me} shield {ent[0]} {int(s[2])}", "ok")
                self.hist("shield", ent[0], bool(s[2]))
                ent[1].shield = bool(s[2])
        elif k == "deadline":
            ent = self.scope_by_key.get(s[1])
            if ent:
                val, txt = self.abs_deadline(s[2])
                self.emit(f"{me} deadline {ent[0]} {txt}", "ok")
                self.hist("deadline", ent[0], None if s[2] is None else int(val))
                ent[1].deadline = val
        elif k == "group":
            await self.group_stmt(me, s[1], s[2])
        elif k == "spawn":
            self.spawn_stmt(me, s[1], s[2])
        elif k == "start":
            await self.start_stmt(me, s[1], s[2])
        elif k == "raise":
            self.hist("raise", me, s[1])
            raise Err(s[1])
        elif k == "raisegroup":
            # a user-made exception group: native CancelledError leaves ("n") and errors ("e<k>")
            excs: list[BaseException] = []
            for c in s[1]:
                excs.append(asyncio.CancelledError() if c == "n" else Err(int(c[1:])))
                if c != "n":
                    self.hist("raise", me, int(c[1:]))
            raise BaseExceptionGroup("user group", excs)
        elif k == "failafter":
            await self.failafter_stmt(me, s[1], s[2])
        elif k == "catch":
            try:
                await self.body(me, s[1])
            except Exception:
                pass
        elif k == "catchall":
            try:
                await self.body(me, s[1])
            except BaseException:
                pass
        elif k == "finally":
            try:
                await self.body(me, s[1])
            except GeneratorExit:  # abandoned coroutine being closed after the run: no cleanup
                raise
            except BaseException as e:
                # cleanup code runs while `e` is being handled: a CancelledError raised in it gets `e` as
                # its __context__.  While that is an AnyIO cancellation, a *native* cancellation raised in
                # the cleanup would be classified as AnyIO's own by the library's context-following
                # heuristic (DESIGN section 4, scoping): such native requests are not generated
                amb = isinstance(e, asyncio.CancelledError) and is_anyio_cancellation(e)
                if amb:
                    self.amb[me] = self.amb.get(me, 0) + 1
                try:
                    await self.body(me, s[2])
                finally:
                    if amb:
                        self.amb[me] -= 1
                raise
            else:
                await self.body(me, s[2])
        elif k == "ncancel":
            ent = self.task_by_name.get(s[1])
            if ent and ent[0] in self.task_obj and ent[0] != me:
                t = self.task_obj[ent[0]]
                if not t.done() and not self.amb.get(ent[0]):
                    self.emit(f"{me} ncancel {ent[0]}", "ok")
                    self.natives[ent[0]] = self.natives.get(ent[0], 0) + 1
                    self.hist("ncancel", ent[0])
                    t.cancel()
        elif k == "uncancel":
            # only native requests are taken back by user code (Task.uncancel's contract)
            if self.natives.get(me, 0) > self.user_uncancels.get(me, 0):
                self.user_uncancels[me] = self.user_uncancels.get(me, 0) + 1
                self.emit(f"{me} uncancel", "ok")
                before = self.task_obj[me].cancelling()
                self.task_obj[me].uncancel()
                self.hist("uncancel", me, before)
        elif k == "hcancel":
            ent = self.task_by_name.get(s[1])
            if ent and ent[1] is not None:
                self.emit(f"{me} hcancel {ent[0]}", "ok")
                self.hist("hcancel", ent[0])
                ent[1].cancel()
        elif k == "hwait":
            ent = self.task_by_name.get(s[1])
            if ent and ent[1] is not None and ent[0] != me:
                await self.op(me, f"{me} hwait {ent[0]}", "resumed", ent[1].wait())
        elif k == "started":
            ts = self.status.get(me)
            if ts is not None:
                i = self.emit(f"{me} started", None)
                try:
                    ts.started(me)
                    self.lines[i][1] = "ok"
                    self.hist("started", me)
                except RuntimeError:
                    self.lines[i][1] = "rterr"
                    fut = getattr(ts, "_future", None)
                    self.hist("started-refused", me, bool(fut is not None and fut.cancelled()))
        elif k == "effdl":
            v = anyio.current_effective_deadline()
            txt = "inf" if v == math.inf else "-inf" if v == -math.inf else str(int(v))
            self.emit(f"q effdl {me}", txt)
            self.hist("effdl", me, txt)
        else:
            raise ValueError(s)

    async def scope_stmt(self, me: int, opts: dict, body: list) -> None:
        val, txt = self.abs_deadline(opts.get("deadline"))
        sc = CancelScope(shield=bool(opts.get("shield")), deadline=val)
        L = self.reg_scope(sc)
        self.scope_by_key[opts["k"]] = (L, sc)
        self.emit(f"{me} mkscope {L} {int(bool(opts.get('shield')))} {txt}", "ok")
        self.hist("mkscope", L, me, bool(opts.get("shield")), None if txt == "-" else int(txt), opts["k"])
        if opts.get("pre"):
            self.emit(f"{me} cancel {L}", "ok")
            self.hist("cancel", L, me)
            sc.cancel()
        self.emit(f"{me} enter {L}", "ok")
        sc.__enter__()
        self.hist("enter", L, me)
        self.q_cancelling(me)
        exc: BaseException | None = None
        try:
            await self.body(me, body)
        except BaseException as e:
            exc = e
        i = self.emit(f"{me} exit {L} {evcode(exc)}", None)
        try:
            swallowed = sc.__exit__(type(exc) if exc is not None else None, exc, exc.__traceback__ if exc is not None else None)
        except BaseException as e2:
            self.lines[i][1] = ("exit raised " + evcode(e2)) if isinstance(e2, BaseExceptionGroup) else "rterr"
            self.hist("exit", L, me, evcode(exc), "raised", evcode(e2), sc.cancelled_caught)
            self.q_scope(L, sc)
            self.q_cancelling(me)
            raise
        self.lines[i][1] = "exit swallowed" if swallowed else "exit passed"
        self.hist("exit", L, me, evcode(exc), "swallowed" if swallowed else "passed", "", sc.cancelled_caught)
        self.q_scope(L, sc)
        self.q_cancelling(me)
        if exc is not None and not swallowed:
            raise exc

    async def failafter_stmt(self, me: int, opts: dict, body: list) -> None:
        """`with anyio.fail_after(d):` -- a deadline scope plus the TimeoutError conversion"""
        d = opts.get("deadline")
        cm = anyio.fail_after(None if d is None else d * self.unit)
        sc = cm.__enter__()
        L = self.reg_scope(sc)
        self.scope_by_key[opts["k"]] = (L, sc)
        txt = "-" if d is None else str(self.now() + int(d))
        self.emit(f"{me} mkscope {L} 0 {txt}", "ok")
        self.emit(f"{me} enter {L}", "ok")
        # the real enter has already happened (inside fail_after's __enter__): tell the oracle first
        self.hist("enter", L, me)
        self.hist("mkscope", L, me, False, None if d is None else int(txt), opts["k"])
        self.q_cancelling(me)
        exc: BaseException | None = None
        try:
            await self.body(me, body)
        except BaseException as e:
            exc = e
        i = self.emit(f"{me} exit {L} {evcode(exc)}", None)
        timeout = False
        try:
            swallowed = cm.__exit__(type(exc) if exc is not None else None, exc, exc.__traceback__ if exc is not None else None)
        except TimeoutError:
            swallowed, timeout = True, True
        except BaseException as e2:
            self.lines[i][1] = ("exit raised " + evcode(e2)) if isinstance(e2, BaseExceptionGroup) else "rterr"
            self.hist("exit", L, me, evcode(exc), "raised", evcode(e2), sc.cancelled_caught)
            self.q_scope(L, sc)
            raise
        self.lines[i][1] = "exit swallowed" if swallowed else "exit passed"
        self.hist("exit", L, me, evcode(exc), "swallowed" if swallowed else "passed", "", sc.cancelled_caught)
        self.q_scope(L, sc)
        self.emit(f"q failat {L}", str(int(timeout)))
        self.hist("failat", L, me, timeout, sc.cancelled_caught)
        self.q_cancelling(me)
        if timeout:
            raise TimeoutError
        if exc is not None and not swallowed:
            raise exc

    async def group_stmt(self, me: int, opts: dict, body: list) -> None:
        tg = anyio.create_task_group()
        G = self.nG
        self.nG += 1
        L = self.reg_scope(tg.cancel_scope)
        self.group_by_key[opts["k"]] = (G, tg)
        self.scope_by_key["g:" + opts["k"]] = (L, tg.cancel_scope)
        self.emit(f"{me} mkgroup {G} {L}", "ok")
        self.hist("mkscope", L, me, False, None, "g:" + opts["k"])
        self.emit(f"{me} genter {G}", "ok")
        await tg.__aenter__()
        self.hist("genter", G, me, L)
        exc: BaseException | None = None
        try:
            await self.body(me, body)
        except BaseException as e:
            exc = e
        code_in = evcode(exc)
        self.hist("aexit-begin", G, me, code_in)
        self.open[me] = self.emit(f"{me} aexit {G} {code_in}", None)
        try:
            swallowed = await tg.__aexit__(type(exc) if exc is not None else None, exc, exc.__traceback__ if exc is not None else None)
        except BaseException as e2:
            # re-raising the very exception that was handed in: same classification as on the way in
            # (as classified THEN: re-raising inside __aexit__ can rewrite the object's __context__, e.g.
            # when the whole `async with` runs inside a `finally:` of an exception in flight)
            code = code_in if e2 is exc else owncode(e2)
            self.close(me, "done " + code)
            self.hist("aexit-end", G, me, code, self.handle_snapshot())
            self.q_scope(L, tg.cancel_scope)
            self.q_cancelling(me)
            raise
        self.close(me, "done -")
        self.hist("aexit-end", G, me, "-", self.handle_snapshot())
        self.q_scope(L, tg.cancel_scope)
        self.q_cancelling(me)
        if exc is not None and not swallowed:
            raise exc

    def spawn_stmt(self, me: int, gkey: str, name: str) -> None:
        ent = self.group_by_key.get(gkey)
        if not ent:
            return
        G, tg = ent
        T = self.nT
        self.nT += 1
        L = self.nL
        self.nL += 1
        coro = self.child_main(T, name, None)
        i = self.emit(f"{me} spawn {G} {T} {L}", None)
        try:
            handle = tg.create_task(coro)
        except RuntimeError:
            self.lines[i][1] = "rterr"
            self.nT -= 1
            self.nL -= 1
            return
        self.lines[i][1] = "ok"
        self.scope_label[id(handle_scope(handle))] = L
        self.scope_objs[L] = handle_scope(handle)
        self.handles[T] = handle
        self.keep.append(handle)
        self.task_by_name[name] = (T, handle)
        self.scope_by_key["h:" + name] = (L, handle_scope(handle))
        self.hist("spawn", G, T, me, L)

    async def start_stmt(self, me: int, gkey: str, name: str) -> None:
        ent = self.group_by_key.get(gkey)
        if not ent:
            return
        G, tg = ent
        T = self.nT
        self.nT += 1
        L = self.nL
        self.nL += 1

        called: list[bool] = []

        def fn(*, task_status: Any) -> Any:
            called.append(True)  # start() got as far as creating the child's coroutine
            return self.child_main(T, name, task_status)

        i = self.emit(f"{me} start {G} {T} {L}", None)
        self.open[me] = i
        self.task_by_name[name] = (T, None)
        self.hist("start-begin", G, T, me, L)
        try:
            handle = await tg.start(fn, return_handle=True)
        except BaseException as e:
            if not called:  # refused synchronously: the group is not active
                self.lines[i][1] = "rterr" if isinstance(e, RuntimeError) else "done " + owncode(e)
                self.open[me] = None
                self.nT -= 1
                self.nL -= 1
                self.hist("start-refused", G, T, me)
            else:
                code = owncode(e)
                fin = self.final_exc.get(T)
                if fin is not None and isinstance(e, asyncio.CancelledError):
                    # the group's done-callback hands a child's cancellation to the start() caller as the
                    # innermost CancelledError of its __context__ chain; the model (no exception chains)
                    # passes the child's outcome on: same exception, so same code as at `finish`
                    x: BaseException | None = fin[0]
                    while x is not None:
                        if x is e:
                            code = fin[1]
                            break
                        x = x.__context__ if isinstance(x.__context__, asyncio.CancelledError) else None
                self.close(me, "done " + code)
                self.hist("start-end", G, T, me, code)
            self.q_cancelling(me)
            raise
        self.close(me, "done -")
        self.hist("start-end", G, T, me, "-")
        self.task_by_name[name] = (T, handle)
        self.handles[T] = handle
        self.scope_by_key["h:" + name] = (self.scope_label[id(handle_scope(handle))], handle_scope(handle))
        self.keep.append(handle)
        self.q_cancelling(me)

    async def child_main(self, T: int, name: str, task_status: Any) -> None:
        task = asyncio.current_task()
        assert task is not None
        self.task_label[id(task)] = T
        self.task_obj[T] = task
        self.status[T] = task_status
        # current scope = TaskHandle._cancel_scope, entered just now by _run_coro
        from anyio._backends._asyncio import _task_states

        hs = _task_states[task].cancel_scope
        if id(hs) not in self.scope_label:
            # start(): label reserved by start_stmt = the one right after our task label's
            for i in range(len(self.lines) - 1, -1, -1):
                w = self.lines[i][0].split()
                if len(w) == 5 and w[1] == "start" and int(w[3]) == T:
                    self.scope_label[id(hs)] = int(w[4])
                    self.scope_objs[int(w[4])] = hs
                    break
            self.keep.append(hs)
        if self.unknown_run is not None:
            i = self.unknown_run
            self.unknown_run = None
            self.lines[i][0] = self.lines[i][0].replace("?", str(T))
            self.lines[i][1] = "resumed -"
        self.hist("child-start", T)
        try:
            await self.body(T, self.p["tasks"][name])
        except BaseException as e:
            code = evcode(e)
            self.final_exc[T] = (e, code)
            self.emit(f"{T} finish {code}", "ok")
            self.hist("finish", T, code)
            raise
        else:
            self.emit(f"{T} finish -", "ok")
            self.hist("finish", T, "-")

    async def main(self) -> None:
        self.loop = asyncio.get_running_loop()  # type: ignore[assignment]
        task = asyncio.current_task()
        assert task is not None
        self.task_label[id(task)] = 0
        self.task_obj[0] = task
        self.root_started = True
        for i in range(self.p.get("nfuts", 0)):
            self.events.append(anyio.Event())
            self.ev_waiters.append([])
        try:
            await self.body(0, self.p["main"])
        except BaseException as e:
            self.emit(f"0 finish {evcode(e)}", "ok")
            self.hist("finish", 0, evcode(e))
            if isinstance(e, (asyncio.CancelledError, KeyboardInterrupt, SystemExit)) and not isinstance(e, asyncio.CancelledError):
                raise
        else:
            self.emit("0 finish -", "ok")
            self.hist("finish", 0, "-")
        # let the loop run idle for a few cycles: residue (C05) shows up here
        self.post_idle["cycle_at_finish"] = getattr(self.loop, "cycle", 0)

    def run(self) -> "KRun":
        self.emit("new", "ok")
        lp = vloop.VLoop(on_handle=self.on_handle, after_handle=self.after_handle,
                         on_cycle=self.on_cycle, max_cycles=5000)
        self.loop = lp
        if self.eager:
            lp.set_task_factory(asyncio.eager_task_factory)
        try:
            asyncio.set_event_loop(lp)
            task = lp.create_task(self.main())
            task._log_destroy_pending = False  # type: ignore[attr-defined]
            self.task_label[id(task)] = 0
            self.task_obj[0] = task
            try:
                lp.run_until_complete(task)
            except vloop.Deadlock:
                self.deadlock = True
                self.after_handle("", None, None)
            except vloop.CycleBudgetExceeded:
                self.error = "cycle budget exceeded (busy loop)"
            else:
                # residue check: drain; a clean program leaves nothing that keeps the loop busy
                extra = 0
                try:
                    while (lp._ready or lp.live_timers()) and extra < 50:
                        lp._run_once()
                        extra += 1
                except vloop.Deadlock:
                    pass
                self.post_idle["extra_cycles"] = extra
                self.post_idle["ready_left"] = lp.pending_ready()
                self.post_idle["timers_left"] = lp.live_timers()
        finally:
            for t in self.task_obj.values():
                t._log_destroy_pending = False  # type: ignore[attr-defined]
            try:
                lp._ready.clear()
                lp._scheduled.clear()
            finally:
                asyncio.set_event_loop(None)
                lp.close()
        return self


async def _await(f: asyncio.Future) -> None:
    await f


class KRunUV(KRun):
    """The same interpreter on a real uvloop (no handle tracing, no model replay): real time scaled
    to `unit` seconds per program time unit; the history is judged by the schedule-independent
    oracles only.  A run that does not finish within `limit` seconds is abandoned (counted)."""

    unit = 0.004

    def __init__(self, program: dict, limit: float = 4.0):
        super().__init__(program, queries=False)
        self.limit = limit
        self.cycle_count = 0

    def hist(self, *a: Any) -> None:
        flags = {L: (sc.cancel_called, sc.shield) for L, sc in self.scope_objs.items()}
        self.history.append((self.now(), self.cycle_count, flags) + a)

    realtime = True

    def run(self) -> "KRunUV":
        import uvloop

        lp = uvloop.new_event_loop()
        self.loop = lp  # type: ignore[assignment]
        self.t0 = lp.time()
        self.root_started = True
        self.ticking = True

        def tick() -> None:
            # one ready callback per loop iteration: counts cycles (and keeps the loop from idling,
            # which changes nothing but CPU use: timers still fire at their real deadlines)
            self.cycle_count += 1
            if self.ticking:
                lp.call_soon(tick)

        lp.call_soon(tick)

        async def guarded() -> None:
            task = asyncio.current_task()
            assert task is not None
            self.task_label[id(task)] = 0
            self.task_obj[0] = task
            await self.main()

        try:
            asyncio.set_event_loop(lp)
            t = lp.create_task(guarded())
            try:
                lp.run_until_complete(asyncio.wait_for(asyncio.shield(t), self.limit))
            except (asyncio.TimeoutError, TimeoutError):
                self.deadlock = True
                self.error = None
                t.cancel()
                for task in asyncio.all_tasks(lp):
                    task.cancel()
                try:
                    lp.run_until_complete(asyncio.sleep(0.01))
                except BaseException:
                    pass
            except BaseException:
                pass
        finally:
            self.ticking = False
            asyncio.set_event_loop(None)
            try:
                lp.close()
            except Exception:
                pass
        return self
