"""C11 Event and Condition: no early, spurious or lost wake-ups.

Correspondence (trace validation of the real `anyio.Event` / `anyio.Condition` against the Lean
models `event` / `cond`) + two oracles written from the property text:

* Event: `wait()` returns only after a `set()`; once set, `is_set()` stays true and nobody stays
  blocked in `wait()`.
* Condition: a queue automaton driven by the observed history (who called `wait()` in which
  order while holding the lock, which `notify(n)` selected whom, who was resumed with / without a
  cancellation, who returned) -- it never looks at the Lean model.
"""

from __future__ import annotations

import asyncio
import random
from typing import Any

import anyio

from .bench import Adapter, Bench, compare, prim
from .common import Ctx, Disagreement, Result, Violation, load_corpus, run_model


class Bench11(Bench):
    """generic bench + the loop-level observations (`step t`, `fc t`, `mc t`) copied into the
    oracle's history, so that the oracle can tell *when* a task was resumed and whether it was
    resumed by a cancellation"""

    def emit(self, req: str, reply: str | None) -> int:
        w = req.split()
        if w[0] in ("step", "fc", "mc"):
            self.events.append((w[0], int(w[1]), None, ""))
        return super().emit(req, reply)


def _holds(cond: anyio.Condition) -> bool:
    """public API only: is the calling task the owner of the condition's lock?"""
    owner = cond.statistics().lock_statistics.owner
    me = asyncio.current_task()
    return owner is not None and me is not None and owner.id == id(me)


# =========================================================================== Event


class EventAdapter(Adapter):
    model = "event"

    def new_line(self, cfg: Any) -> str:
        return "new"

    def setup(self, cfg: Any, bench: Bench) -> None:
        self.bench = bench
        self.ev = prim("Event", bool((cfg or {}).get("adapter")))

    def fmt(self, t: int, op: list, pre: bool) -> str:
        if op[0] == "wait":
            return f"wait {t} {int(pre)}"
        return "set"

    def call(self, t: int, op: list) -> Any:
        if op[0] == "wait":
            return self.ev.wait()
        if op[0] == "set":
            return self.ev.set()
        raise ValueError(op)

    def obs(self) -> str:
        return f"set={int(self.ev.is_set())} waiting={self.ev.statistics().tasks_waiting}"


def gen_event_case(rng: random.Random, max_tasks: int, max_ops: int) -> dict:
    n = rng.randint(2, max_tasks)
    setter = rng.randrange(n) if rng.random() < 0.85 else -1
    scripts = []
    for t in range(n):
        ops: list[list] = []
        others = [j for j in range(n) if j != t]
        for _ in range(rng.randint(1, max_ops)):
            r = rng.random()
            if r < 0.35:
                ops.append(["wait"] + (["pre"] if rng.random() < 0.1 else []))
            elif r < 0.60:
                ops.append(["yield"])
            elif r < 0.75:
                ops.append(["cancel", rng.choice(others)])
            elif r < 0.88:
                ops.append(["ncancel", rng.choice(others)])
            elif t == setter or rng.random() < 0.15:
                ops.append(["set"])
            else:
                ops.append(["yield"])
        if t == setter:
            pos = rng.randint(0, len(ops))
            ops.insert(pos, ["set"])
            if rng.random() < 0.5:  # a cancellation aimed at the cycle of the set()
                ops.insert(pos + rng.randint(0, 1), [rng.choice(["cancel", "ncancel"]), rng.choice(others)])
            # a setter that waits before its own set() would block the set forever: fine, but
            # keep most cases live
            if rng.random() < 0.7:
                ops = [o for i, o in enumerate(ops) if not (o[0] == "wait" and i < pos)] or [["set"]]
        scripts.append(ops)
    return {"kind": "event", "cfg": {"adapter": rng.random() < 0.25}, "scripts": scripts}


def event_oracle(b: Bench) -> str | None:
    was_set = False
    inside: dict[int, dict] = {}  # tasks inside wait(): entered before set?, cancel issued?
    for kind, t, op, out in b.events:
        if kind == "call":
            if op[0] == "wait":
                inside[t] = {"before_set": not was_set, "cancel": out == "pre", "resumed": False}
        elif kind == "cancel":
            if t in inside:
                inside[t]["cancel"] = True
        elif kind == "step":
            if t in inside:
                inside[t]["resumed"] = True
        elif kind == "op":
            if op[0] == "set":
                if out != "ret":
                    return f"set() raised {out}"
                was_set = True
            elif op[0] == "wait":
                st = inside.pop(t, None)
                if out == "ret":
                    if not was_set:
                        return f"early wake-up: wait() returned to task {t} before any set()"
                elif out == "cancelled":
                    if st is not None and not st["cancel"]:
                        return f"wait() of task {t} raised a cancellation nobody issued"
                else:
                    return f"unexpected outcome {out!r} of wait()"
        elif kind == "obs":
            f = dict(kv.split("=") for kv in out.split())
            if was_set and f["set"] != "1":
                return "event not set after set() (flag not monotone)"
            if not was_set and f["set"] != "0":
                return "event reports set although set() was never called"
            w = int(f["waiting"])
            if w > len(inside):
                return f"tasks_waiting={w} but only {len(inside)} tasks are inside wait()"
            if not was_set:
                quiet = [u for u, st in inside.items() if not st["cancel"]]
                if w < len(quiet):
                    return f"tasks_waiting={w} but tasks {quiet} are blocked in wait()"
    if was_set and inside:
        return f"lost wake-up: tasks {sorted(inside)} still blocked in wait() after set()"
    return None


# =========================================================================== Condition


class CondAdapter(Adapter):
    model = "cond"

    def new_line(self, cfg: Any) -> str:
        return f"new {int(bool(cfg['fast']))}"

    def setup(self, cfg: Any, bench: Bench) -> None:
        self.bench = bench
        self.cond = anyio.Condition(prim("Lock", bool(cfg.get("adapter")), fast_acquire=bool(cfg["fast"])))

    def fmt(self, t: int, op: list, pre: bool) -> str:
        k = op[0]
        if k in ("acquire", "wait"):
            return f"{k} {t} {int(pre)}"
        if k == "notify":
            return f"notify {t} {op[1]}"
        return f"{k} {t}"

    def call(self, t: int, op: list) -> Any:
        k = op[0]
        c = self.cond
        if k == "acquire":
            return c.__aenter__() if "cm" in op[1:] else c.acquire()
        if k == "acquire_nowait":
            return c.acquire_nowait()
        if k == "release":
            # `async with cond:` leaves through __aexit__, which must do what release() does
            return c.__aexit__(None, None, None) if "cm" in op[1:] else c.release()
        if k == "wait":
            return c.wait()
        if k == "notify":
            return c.notify(op[1])
        if k == "notify_all":
            return c.notify_all()
        raise ValueError(op)

    def ok(self, t: int, op: list, value: Any) -> str:
        self.bench.events.append(("held", t, None, str(int(_holds(self.cond)))))
        return "ret"

    def exc(self, t: int, op: list, e: BaseException) -> str:
        self.bench.events.append(("held", t, None, str(int(_holds(self.cond)))))
        return super().exc(t, op, e)

    def obs(self) -> str:
        st = self.cond.statistics()
        ls = st.lock_statistics
        owner = "-" if ls.owner is None else str(self.bench.index.get(ls.owner.id, "?"))
        return (f"locked={int(self.cond.locked())} owner={owner} lockwaiters={ls.tasks_waiting} "
                f"waiting={st.tasks_waiting}")


# --------------------------------------------------------------------------- generators


def _waiter_script(rng: random.Random, nw: int, nall: int, t: int) -> list[list]:
    ops: list[list] = [["yield"]] * rng.randint(0, 2)
    ops.append(["acquire"])
    for _ in range(rng.choice([1, 1, 1, 2])):
        ops.append(["wait"] + (["pre"] if rng.random() < 0.05 else []))
        if rng.random() < 0.2:
            ops.append(["yield"])
    ops.append(["release"])
    return [list(o) for o in ops]


def _notifier_script(rng: random.Random, nw: int, nall: int, t: int) -> list[list]:
    ops: list[list] = [["yield"]] * rng.randint(0, 2 + nw)
    rounds = rng.choice([1, 1, 2, 3])
    for _ in range(rounds):
        ops.append(["acquire"])
        for _ in range(rng.randint(1, 4)):
            r = rng.random()
            if r < 0.45:
                ops.append(["notify", rng.randint(0, nw + 1)])
            elif r < 0.55:
                ops.append(["notify_all"])
            elif r < 0.70:
                ops.append(["cancel", rng.randrange(nw)])
            elif r < 0.85:
                ops.append(["ncancel", rng.randrange(nw)])
            else:
                ops.append(["yield"])
        ops.append(["release"])
        for _ in range(rng.randint(0, 3)):
            r = rng.random()
            if r < 0.5:
                ops.append(["yield"])
            elif r < 0.75:
                ops.append(["cancel", rng.randrange(nw)])
            else:
                ops.append(["ncancel", rng.randrange(nw)])
    return [list(o) for o in ops]


def _canceller_script(rng: random.Random, nw: int, nall: int, t: int) -> list[list]:
    ops: list[list] = []
    for _ in range(rng.randint(1, 6)):
        r = rng.random()
        if r < 0.5:
            ops.append(["yield"])
        elif r < 0.75:
            ops.append(["cancel", rng.randrange(nw)])
        else:
            ops.append(["ncancel", rng.randrange(nw)])
    return ops


def _misuse_script(rng: random.Random, nw: int, nall: int, t: int) -> list[list]:
    """wait/notify/notify_all/release by a task that does not (or no longer) hold the lock"""
    ops: list[list] = [["yield"]] * rng.randint(0, 3)
    if rng.random() < 0.6:  # has held it once (the F7 shape)
        ops += [["acquire"], ["release"]]
    for _ in range(rng.randint(1, 3)):
        ops.append(rng.choice([["notify", rng.randint(1, 3)], ["notify_all"], ["wait"], ["release"],
                               ["acquire_nowait"], ["yield"]]))
    if rng.random() < 0.5:
        ops += [["acquire"], ["notify", 1], ["release"]]
    return ops


def gen_cond_case(rng: random.Random, max_waiters: int) -> dict:
    nw = rng.randint(1, max_waiters)
    nn = rng.choice([1, 1, 2])
    roles = ["w"] * nw + ["n"] * nn
    if rng.random() < 0.35:
        roles.append("c")
    if rng.random() < 0.3:
        roles.append("m")
    nall = len(roles)
    mk = {"w": _waiter_script, "n": _notifier_script, "c": _canceller_script, "m": _misuse_script}
    scripts = [mk[r](rng, nw, nall, t) for t, r in enumerate(roles)]
    if rng.random() < 0.4:
        # the `async with cond:` idiom: enter/leave through __aenter__/__aexit__
        scripts = [[(op[:1] + ["cm"] + op[1:]) if op[0] in ("acquire", "release") else op for op in sc]
                   for sc in scripts]
    return {"kind": "cond", "cfg": {"fast": rng.random() < 0.3, "adapter": rng.random() < 0.25}, "scripts": scripts}


WHENS = ["before", "same-cancel-first", "same-notify-first", "after-held", "after-released", "none"]


def directed_case(nw: int, n: int, j: int, kind: str, when: str, fast: bool, tail: bool) -> dict:
    """`nw` waiters queue up, one notifier issues notify(n) and cancels waiter `j` (scope or
    native) at a chosen moment relative to the notification that selects it"""
    waiters = [[["acquire"], ["wait"], ["release"]] for _ in range(nw)]
    pad = [["yield"]] * (2 * nw + 2)
    body: list[list]
    if when == "before":
        body = [[kind, j], ["yield"], ["yield"], ["acquire"], ["notify", n], ["release"]]
    elif when == "same-cancel-first":
        body = [["acquire"], [kind, j], ["notify", n], ["release"]]
    elif when == "same-notify-first":
        body = [["acquire"], ["notify", n], [kind, j], ["release"]]
    elif when == "after-held":
        body = [["acquire"], ["notify", n], ["yield"], [kind, j], ["release"]]
    elif when == "after-released":
        body = [["acquire"], ["notify", n], ["release"], ["yield"], [kind, j]]
    else:
        body = [["acquire"], ["notify", n], ["release"]]
    # enough further notifications for everybody still asleep
    rest = [["yield"], ["yield"], ["acquire"], ["notify_all"], ["release"]] if tail else []
    return {"kind": "cond", "cfg": {"fast": fast}, "scripts": waiters + [pad + body + rest],
            "directed": [nw, n, j, kind, when]}


def directed_cond_cases(rng: random.Random, max_waiters: int, count: int) -> list[dict]:
    out = []
    for _ in range(count):
        nw = rng.randint(1, max_waiters)
        if nw >= 2 and rng.random() < 0.6:  # the cancelled waiter is selected, others remain queued
            n = rng.randint(1, nw - 1)
            j = rng.randrange(n)
        else:
            n = rng.randint(0, nw + 1)
            j = rng.randrange(nw)
        out.append(directed_case(nw, n, j, rng.choice(["cancel", "ncancel"]), rng.choice(WHENS),
                                 rng.random() < 0.3, rng.random() < 0.7))
    return out


def enum_directed(max_waiters: int):
    """every (number of waiters, n, cancelled waiter, kind of cancellation, timing) (thorough)"""
    for nw in range(1, max_waiters + 1):
        for n in range(0, nw + 2):
            for j in range(nw):
                for kind in ("cancel", "ncancel"):
                    for when in WHENS:
                        for fast in (False, True):
                            for tail in (False, True):
                                yield directed_case(nw, n, j, kind, when, fast, tail)


# --------------------------------------------------------------------------- oracle


class QueueAutomaton:
    """The property, operationally: a FIFO of waiting tasks; `notify(n)` by the lock holder
    selects the `min(n, len)` oldest; a selected waiter that is resumed by a cancellation hands its
    notification to the oldest still-waiting task; `wait()` returns only to a selected task,
    which then holds the lock again."""

    def __init__(self) -> None:
        self.holder: int | None = None
        self.queue: list[int] = []
        self.w: dict[int, dict] = {}  # tasks inside an accepted wait()
        self.expect: dict[int, str] = {}
        self.held: dict[int, bool] = {}
        self.ghost = {"issued": 0, "direct": 0, "passed": 0, "dropped": 0}
        self.stats = {"consumed": 0, "passed_on": 0, "dropped_on_empty": 0, "removed_unnotified": 0,
                      "native_cancel_in_reacquire": 0, "refused": 0, "notified": 0,
                      "cancel_then_notify_same_cycle": 0, "notify_then_cancel_same_cycle": 0}

    def select(self, u: int, how: str) -> None:
        self.w[u]["notified"] = True
        self.w[u]["how"] = how
        if how == "direct":
            self.ghost["issued"] += 1
        self.stats["notified"] += 1
        if self.w[u]["cancel_seen"]:
            self.stats["cancel_then_notify_same_cycle"] += 1

    def feed(self, kind: str, t: int, op: Any, out: str) -> str | None:  # noqa: C901
        if kind == "held":
            self.held[t] = out == "1"
            return None
        if kind == "call":
            k = op[0]
            if k == "wait":
                if out == "pre":
                    self.expect[t] = "pre"
                elif self.holder == t:
                    self.expect[t] = "accepted"
                    self.holder = None
                    self.queue.append(t)
                    self.w[t] = {"notified": False, "resumed": False, "cancel_seen": False,
                                 "mode": None, "reacq_cancel": False, "how": None}
                else:
                    self.expect[t] = "refuse"
            return None
        if kind == "cancel":
            st = self.w.get(t)
            if st is not None and out == "native":
                st["native_seen"] = True
            return None
        if kind in ("fc", "mc"):
            st = self.w.get(t)
            if st is not None:
                if not st["resumed"]:
                    if st["notified"] and not st["cancel_seen"]:
                        self.stats["notify_then_cancel_same_cycle"] += 1
                    st["cancel_seen"] = True
                elif st.get("native_seen"):
                    # only a native Task.cancel() can interrupt the shielded re-acquire (DESIGN section 4)
                    st["reacq_cancel"] = True
            return None
        if kind == "step":
            st = self.w.get(t)
            if st is None or st["resumed"]:
                return None
            st["resumed"] = True
            if st["cancel_seen"]:
                st["mode"] = "exc"
                if st["notified"]:
                    st["notified"] = False  # it cannot act on it: the notification moves on
                    if self.queue:
                        self.select(self.queue.pop(0), "passed")
                        self.stats["passed_on"] += 1
                    else:
                        self.stats["dropped_on_empty"] += 1
                        self.ghost["dropped"] += 1
                else:
                    if t in self.queue:
                        self.queue.remove(t)
                    self.stats["removed_unnotified"] += 1
            else:
                st["mode"] = "normal"
                if not st["notified"]:
                    return f"spurious wake-up: task {t} resumed from wait() without notification or cancellation"
                self.stats["consumed"] += 1
                self.ghost["direct" if st["how"] == "direct" else "passed"] += 1
            return None
        if kind == "op":
            k = op[0]
            held = self.held.pop(t, False)
            if k == "wait":
                exp = self.expect.pop(t, None)
                st = self.w.pop(t, None)
                if exp == "pre":
                    if out != "cancelled":
                        return f"wait() in a cancelled scope ended with {out}"
                    return None
                if exp == "refuse":
                    self.stats["refused"] += 1
                    if out != "runtimeerror":
                        return f"wait() by task {t} not holding the lock was not refused: {out}"
                    return None
                if out == "runtimeerror":
                    if t in self.queue:
                        self.queue.remove(t)
                    return f"wait() by lock holder {t} refused"
                assert st is not None
                if out == "ret":
                    if not st["notified"]:
                        return f"wait() returned to task {t} which holds no notification"
                    if not held:
                        return f"wait() returned to task {t} which does not hold the lock"
                elif out == "cancelled":
                    if not st["resumed"]:
                        return f"wait() of {t} raised without having been resumed"
                    if st["mode"] == "normal":
                        if not st["reacq_cancel"]:
                            return f"wait() of notified task {t} raised a cancellation nobody delivered"
                        self.stats["native_cancel_in_reacquire"] += 1
                    if not held and not st["reacq_cancel"]:
                        return f"wait() of {t} raised without the lock although the re-acquire was not interrupted"
                else:
                    return f"unexpected outcome {out!r} of wait()"
                if held:
                    if self.holder is not None and self.holder != t:
                        return f"mutual exclusion: wait() gave the lock to {t} while {self.holder} holds it"
                    self.holder = t
                return None
            if k in ("notify", "notify_all"):
                if out == "ret":
                    if self.holder != t:
                        return f"{k} accepted from task {t} which does not hold the lock"
                    n = op[1] if k == "notify" else len(self.queue)
                    for _ in range(min(n, len(self.queue))):
                        self.select(self.queue.pop(0), "direct")
                elif out == "runtimeerror":
                    self.stats["refused"] += 1
                    if self.holder == t:
                        return f"{k} by lock holder {t} refused"
                else:
                    return f"unexpected outcome {out!r} of {k}"
                return None
            if k in ("acquire", "acquire_nowait"):
                if out == "ret":
                    if self.holder is not None:
                        return f"mutual exclusion: {k} returned to {t} while {self.holder} holds the lock"
                    self.holder = t
                return None
            if k == "release":
                if out == "ret":
                    if self.holder != t:
                        return f"release by non-holder {t} accepted"
                    self.holder = None
                elif out == "runtimeerror" and self.holder == t:
                    return f"release by holder {t} refused"
                return None
            return None
        if kind == "obs":
            f = dict(kv.split("=") for kv in out.split())
            if int(f["waiting"]) != len(self.queue):
                return (f"statistics().tasks_waiting={f['waiting']} but the waiting queue of the history "
                        f"is {self.queue}")
            if self.holder is not None and f["owner"] != str(self.holder):
                return f"task {self.holder} holds the lock but the reported owner is {f['owner']}"
            return None
        return None

    def finish(self, deadlock: bool) -> str | None:
        asleep = [u for u, st in self.w.items() if not st["resumed"] and u not in self.queue]
        if asleep:
            return f"lost wake-up: notified tasks {asleep} were never resumed"
        return None


    def ghost_line(self) -> str:
        """the automaton's notification accounting, in the format of the model's `ghost` reply"""
        pending = sum(1 for st in self.w.values() if st["notified"] and not st["resumed"])
        g = self.ghost
        return (f"issued={g['issued']} direct={g['direct']} passed={g['passed']} dropped={g['dropped']} "
                f"pending={pending}")


def cond_oracle(b: Bench) -> tuple[str | None, dict, str | None]:
    qa = QueueAutomaton()
    for kind, t, op, out in b.events:
        bad = qa.feed(kind, t, op, out)
        if bad:
            return bad, qa.stats, None
    return qa.finish(b.deadlock), qa.stats, qa.ghost_line()


# --------------------------------------------------------------------------- run


def nontrivial_key(case: dict, b: Bench) -> tuple | None:
    reqs = [r for r, _ in b.lines]
    if case["kind"] == "event":
        blocked = any(r.startswith("wait") for r in reqs) and any(r == "set" for r in reqs)
        cancelled = any(r.startswith(("fc", "mc")) for r in reqs)
        ok = blocked or cancelled
    else:
        waited = any(r.startswith("wait") and o == "susp" for r, o in b.lines)
        refused = any(o == "runtimeerror" for _, o in b.lines)
        ok = waited or refused
    if ok:
        return (case["kind"],) + tuple((r, o) for r, o in b.lines if not r.startswith(("obs", "ghost")))
    return None


ADAPTERS = {"event": EventAdapter, "cond": CondAdapter}


def run_cases(cases: list[dict], res: Result) -> None:
    benches: list[Bench] = []
    verdicts: list[str | None] = []
    per_model: dict[str, list[str]] = {"event": [], "cond": []}
    q_st = res.stats.setdefault("condition_automaton", {})
    for case in cases:
        kind = case["kind"]
        b = Bench11(ADAPTERS[kind](), case).run()
        benches.append(b)
        bad: str | None = None
        if not b.error:
            if kind == "event":
                bad = event_oracle(b)
            else:
                bad, qs, ghost = cond_oracle(b)
                for k, v in qs.items():
                    q_st[k] = q_st.get(k, 0) + v
                if ghost is not None:
                    # the automaton's notification accounting must equal the model's ghost counters
                    b.lines.append(["ghost", ghost])
        verdicts.append(bad)
        per_model[kind] += [r for r, _ in b.lines]
    replies = {m: run_model(m, ls) for m, ls in per_model.items()}
    pos = {"event": 0, "cond": 0}
    out_st = res.stats.setdefault("outcomes", {})
    for case, b, bad in zip(cases, benches, verdicts):
        kind = case["kind"]
        rep = replies[kind][pos[kind]: pos[kind] + len(b.lines)]
        pos[kind] += len(b.lines)
        res.evaluations += 1
        res.stats[f"cases_{kind}"] = res.stats.get(f"cases_{kind}", 0) + 1
        for r, o in b.lines:
            if r.startswith(("obs", "ghost")):
                continue
            k = f"{kind}.{r.split()[0]}:{o.split()[0]}"
            out_st[k] = out_st.get(k, 0) + 1
        res.stats["deadlocks"] = res.stats.get("deadlocks", 0) + int(b.deadlock)
        res.stats["cancels_issued"] = res.stats.get("cancels_issued", 0) + b.cancel_hits
        if b.error:
            res.violations.append(Violation(case, b.error, "harness:" + b.error[:30]))
            continue
        if "directed" in case:
            d = res.stats.setdefault("directed_timing", {})
            d[case["directed"][4]] = d.get(case["directed"][4], 0) + 1
        if bad:
            res.violations.append(Violation(case, bad, "C11:" + kind + ":" + bad.split(":")[0][:60]))
        d = compare(b.lines, rep)
        if d:
            res.disagreements.append(Disagreement(case, d[1]))
        else:
            res.traces_validated += 1
        k = nontrivial_key(case, b)
        if k is not None:
            res.nontrivial.add(hash(k))
            kinds_sampled = {s["case"]["kind"] for s in res.samples}
            if len(res.samples) < 4 and (kind not in kinds_sampled or len(res.samples) >= 2):
                res.samples.append({"case": case, "trace": [f"{r} -> {o}" for r, o in b.lines[:16]]})


def run(ctx: Ctx) -> Result:
    res = Result(rule="Event: random scripts over wait/set/yield/cancel j/ncancel j; Condition: 1..4 "
                      "(quick) / 1..6 (thorough) waiters, notifiers with notify(n) for all n in 0..N+1 and "
                      "notify_all, scope and native cancellations before / in the same cycle as / after the "
                      "selecting notification (directed templates + random), misuse stream (wait/notify/"
                      "notify_all/release without the lock).  A case is non-trivial if a wait() really "
                      "suspended (Condition), a set() met waiters or a cancellation landed inside an "
                      "operation (Event), or an operation was refused; distinct = distinct event traces")
    mw = 4 if ctx.tier == "quick" else 6
    mt, mo = (4, 6) if ctx.tier == "quick" else (6, 8)
    # cases are generated lazily, one batch at a time (the failing-input search multiplies the
    # counts by 8; nothing is materialised up front), mixing the three generators 9:6:5 / 3:1:1
    n_total = min(ctx.n(2000, 60000), 200000)
    w_cond, w_dir = (0.45, 0.30) if ctx.tier == "quick" else (0.60, 0.20)

    def batch(k: int) -> list[dict]:
        out: list[dict] = []
        for _ in range(k):
            r = ctx.rng.random()
            if r < w_cond:
                out.append(gen_cond_case(ctx.rng, mw))
            elif r < w_cond + w_dir:
                out += directed_cond_cases(ctx.rng, mw, 1)
            else:
                out.append(gen_event_case(ctx.rng, mt, mo))
        return out

    corpus = [c for c in load_corpus("C11")]
    if corpus:
        run_cases(corpus, res)
    done = 0
    while done < n_total and ctx.time_left() > 0:
        k = min(400, n_total - done)
        run_cases(batch(k), res)
        done += k
    if ctx.tier == "thorough" and ctx.budget == 1.0 and ctx.time_left() > 0:
        enum = list(enum_directed(mw))
        for i in range(0, len(enum), 400):
            run_cases(enum[i: i + 400], res)
        res.stats["enumerated_directed_timings"] = len(enum)
    return res


def replay(ctx: Ctx, case: Any) -> Result:
    res = Result(rule="replay")
    run_cases([case], res)
    return res


if __name__ == "__main__":
    import sys
    from .common import check_main

    sys.exit(check_main("C11", run, replay=replay, models=["event", "cond"],
                        technique_note="Lean 4 theorems over the Event and Condition LTS (all event lists; "
                                       "Condition embeds the Lock model of C09) + trace validation of the real "
                                       "Event/Condition against the models + queue-automaton oracle on the "
                                       "observed history"))
