"""C18, raw-socket leg: `_RawSocketMixin` (UNIX socket streams) closes cleanly under blocked tasks.

Trace validation of the REAL `UNIXSocketStream` (receive / send / receive_fds / send_fds, the
readiness waits `_wait_until_readable` / `_wait_until_writable` and `aclose`) against the Lean
model `rawsock` (lean/AnyioModel/Stream/RawSock.lean, `fixed = true`), plus an oracle written
from the property text (defect F13, repaired by afa90d6).

How the real code is driven
* `FakeSock` is the raw socket object: `recv`/`send`/`recvmsg`/`sendmsg` answer what the harness
  decided for this call (BlockingIOError or success) while the descriptor is really open and
  raise OSError(EBADF) once it is really closed.  With `defer=True` it behaves like a socket
  registered with uvloop: `close()` only marks the object closed while the loop holds a
  registration (an io-reference); the descriptor is closed when the last registration goes.
* `StepLoop` is an `asyncio.BaseEventLoop` that is never *run*: it is installed as the running
  loop and the harness executes the handles of its ready queue ONE AT A TIME, so every model event
  is exactly one segment of the real code.  `add_reader / remove_reader / add_writer /
  remove_writer` are recorded (with the state of the socket at the time of the call), and the
  harness decides when a registration fires (it calls the registered `f.set_result`).
* events (= model events): `call d block` start receive()/send() in a new task and run it up to
  the socket call and beyond (to its suspension or end); `fire d`; `cb d` run the future's done
  callback; `resume d block` run the task's wake-up; `cancel d` `Task.cancel()` of the waiting
  task; `aclose` run `stream.aclose()` (no await inside: one segment).
  The ready queue is FIFO per direction (callback before wake-up, as `call_soon` guarantees); the
  two directions and the harness' own actions interleave freely.
After every event the outcome and the whole observable state (flags, task pcs, the stream's
future fields, the futures' states, the loop's registrations, scheduled callbacks, bad-removal
counters) are compared with the model.  Every schedule ends with a drain: everything that is
ready runs (peer silent: an open descriptor answers BlockingIOError).

Oracle (from the property text, independent of the model): after `aclose()` no task stays blocked;
every operation that ends after the close ends with ClosedResourceError (CancelledError if the
harness had cancelled it) and none blocks again; no `remove_reader`/`remove_writer` call is made
for a closed descriptor that still has the registration; no registration survives `aclose()`;
nothing raises inside a loop callback.
"""

from __future__ import annotations

import asyncio
import errno
import random
import time
from typing import Any

from anyio import BrokenResourceError, BusyResourceError, ClosedResourceError, EndOfStream
from anyio._backends._asyncio import UNIXSocketStream

from .common import Ctx, Disagreement, Result, Violation, run_model
from .vloop import label_handle

MODEL = "rawsock"
DIRS = ("r", "w")
R_OPS = ("receive", "receive_fds")
W_OPS = ("send", "send_fds")
MAX_CALLS = 3  # operations per direction and case
MODEL_FIXED = 1  # 1: compare with the model of the current code; 0 (CLI --old-code-model): code before afa90d6
MAX_VIOLATIONS_PER_SIGNATURE = 3


# --------------------------------------------------------------------------- fakes


class FakeSock:
    def __init__(self, defer: bool) -> None:
        self.defer = defer
        self.py_closed = False  # close() was called
        self.real_open = True  # the descriptor is open: fileno() != -1
        self.io_refs = 0  # registrations held by the loop
        self.block = {"r": True, "w": True}  # the environment's answer for the next call
        self.ncalls = {"r": 0, "w": 0}

    def fileno(self) -> int:
        return 99 if self.real_open else -1

    def close(self) -> None:
        self.py_closed = True
        if not (self.defer and self.io_refs > 0):
            self.real_open = False

    def _call(self, d: str) -> None:
        self.ncalls[d] += 1
        if not self.real_open:
            raise OSError(errno.EBADF, "Bad file descriptor")
        if self.block[d]:
            raise BlockingIOError(errno.EAGAIN, "Resource temporarily unavailable")

    def recv(self, n: int) -> bytes:
        self._call("r")
        return b"x"

    def recvmsg(self, n: int, anc: int) -> tuple:
        self._call("r")
        return (b"x", [], 0, None)

    def send(self, view: Any) -> int:
        self._call("w")
        return len(view)

    def sendmsg(self, bufs: Any, anc: Any) -> int:
        self._call("w")
        return sum(len(b) for b in bufs)


class StepLoop(asyncio.BaseEventLoop):
    """never run; the harness pops and runs single handles of `_ready`"""

    def __init__(self, sock: FakeSock) -> None:
        super().__init__()
        self.sock = sock
        self.regs: dict[str, tuple | None] = {"r": None, "w": None}
        self.futs: dict[str, list] = {"r": [], "w": []}  # futures seen, in creation order
        self.bad = 0
        self.late = 0
        self.removes: list[tuple] = []  # (direction, descriptor closed?, registration present?)
        self.errors: list[str] = []
        self.set_exception_handler(lambda loop, c: self.errors.append(
            f"{c.get('message')}: {c.get('exception')!r}"))

    def _process_events(self, event_list: Any) -> None:  # pragma: no cover - never run
        pass

    def _add(self, d: str, fd: Any, callback: Any, args: tuple) -> None:
        assert fd is self.sock
        fut = getattr(callback, "__self__", None)
        if fut is not None and not any(fut is f for f in self.futs[d]):
            self.futs[d].append(fut)
        if self.regs[d] is None:
            self.sock.io_refs += 1
        self.regs[d] = (callback, args, fut)

    def _remove(self, d: str, fd: Any) -> bool:
        assert fd is self.sock
        present = self.regs[d] is not None
        closed = not self.sock.real_open
        self.removes.append((d, closed, present))
        if closed:
            self.late += 1
            if present:
                self.bad += 1
        if not present:
            if closed:
                # what the selector loop does for a socket object whose fileno() is -1 and that it does not know
                raise ValueError("Invalid file descriptor: -1")
            return False
        self.regs[d] = None
        self.sock.io_refs -= 1
        if self.sock.defer and self.sock.py_closed and self.sock.io_refs == 0:
            self.sock.real_open = False
        return True

    def add_reader(self, fd: Any, callback: Any, *args: Any) -> None:  # type: ignore[override]
        self._add("r", fd, callback, args)

    def add_writer(self, fd: Any, callback: Any, *args: Any) -> None:  # type: ignore[override]
        self._add("w", fd, callback, args)

    def remove_reader(self, fd: Any) -> bool:  # type: ignore[override]
        return self._remove("r", fd)

    def remove_writer(self, fd: Any) -> bool:  # type: ignore[override]
        return self._remove("w", fd)


def exc_name(e: BaseException) -> str:
    if isinstance(e, asyncio.CancelledError):
        return "cancelled"
    if isinstance(e, ClosedResourceError):
        return "closed"
    if isinstance(e, BrokenResourceError):
        return "broken"
    if isinstance(e, BusyResourceError):
        return "busy"
    if isinstance(e, EndOfStream):
        return "eos"
    return "exc:" + type(e).__name__


CB_QUAL = {"r": "_wait_until_readable.<locals>.callback", "w": "_wait_until_writable.<locals>.callback"}
FIELD = {"r": "_receive_future", "w": "_send_future"}


# --------------------------------------------------------------------------- one case on the real code


class Runner:
    """executes events on the real stream; `log` = [(event, reply, obs)]"""

    def __init__(self, defer: bool, ops: dict[str, str]) -> None:
        self.defer = defer
        self.ops = ops
        self.sock = FakeSock(defer)
        self.loop = StepLoop(self.sock)
        self.stream = UNIXSocketStream(self.sock)  # type: ignore[arg-type]
        self.tasks: dict[str, asyncio.Task | None] = {"r": None, "w": None}
        self.calls = {"r": 0, "w": 0}
        self.cancelled_by_harness: dict[str, bool] = {"r": False, "w": False}
        self.log: list[tuple[list, str, str]] = []
        self.branches: list[str] = []
        self.aclosed = False
        self.woke_somebody = False
        self.problems: list[str] = []  # oracle findings

    # ---- ready queue
    def _handles(self) -> list:
        return [h for h in self.loop._ready if not h._cancelled]

    def cb_handle(self, d: str) -> Any:
        for h in self._handles():
            if (getattr(h._callback, "__qualname__", "") or "").endswith(CB_QUAL[d]):
                return h
        return None

    def task_handle(self, d: str) -> Any:
        t = self.tasks[d]
        if t is None:
            return None
        for h in self._handles():
            kind, who = label_handle(h)
            if who is t and kind in ("step", "wakeup"):
                return h
        return None

    def _run(self, h: Any) -> None:
        self.loop._ready.remove(h)
        h._run()

    # ---- observation
    def waiting(self, d: str) -> bool:
        t = self.tasks[d]
        if t is None or t.done():
            return False
        w = getattr(t, "_fut_waiter", None)
        return w is not None and not w.done()

    def outcome(self, d: str) -> str:
        t = self.tasks[d]
        assert t is not None and t.done()
        if t.cancelled():
            return "cancelled"
        e = t.exception()
        return "ok" if e is None else exc_name(e)

    def pc(self, d: str) -> str:
        t = self.tasks[d]
        if t is None:
            return "idle"
        if t.done():
            return "done:" + self.outcome(d)
        return "waiting" if self.waiting(d) else "woken"

    def _idx(self, d: str, fut: Any) -> str:
        if fut is None:
            return "-"
        for i, f in enumerate(self.loop.futs[d]):
            if f is fut:
                return str(i + 1)
        return "?"

    def side(self, d: str) -> str:
        futs = self.loop.futs[d]
        if not futs:
            fs = "none"
        else:
            f = futs[-1]
            fs = "pending" if not f.done() else ("cancelled" if f.cancelled() else "resolved")
        field = self.stream.__dict__.get(FIELD[d])
        reg = self.loop.regs[d]
        return "/".join([self.pc(d), self._idx(d, field), str(len(futs)), fs,
                         self._idx(d, reg[2]) if reg else "-", "1" if self.cb_handle(d) else "0"])

    def obs(self) -> str:
        b = lambda x: "1" if x else "0"  # noqa: E731
        return (f"closing={b(self.stream._closing)} closed={b(self.sock.py_closed)} fd={b(self.sock.real_open)} "
                f"r={self.side('r')} w={self.side('w')} bad={self.loop.bad} late={self.loop.late}")

    # ---- which events the real state admits
    def enabled(self, ev: list) -> bool:
        k = ev[0]
        if k == "aclose":
            return True
        d = ev[1]
        t = self.tasks[d]
        if k == "call":
            return t is None or t.done()
        if k == "fire":
            reg = self.loop.regs[d]
            return reg is not None and self.sock.real_open and reg[2] is not None and not reg[2].done()
        if k == "cb":
            return self.cb_handle(d) is not None
        if k == "resume":
            return (t is not None and not t.done() and not self.waiting(d)
                    and self.cb_handle(d) is None and self.task_handle(d) is not None)
        if k == "cancel":
            return self.waiting(d)
        return False

    def enabled_events(self, rng: random.Random) -> list[list]:
        out: list[list] = []
        for d in DIRS:
            if self.calls[d] < MAX_CALLS and self.enabled(["call", d, 1]):
                out.append(["call", d, 1 if rng.random() < 0.8 else 0])
            if self.enabled(["fire", d]):
                out.append(["fire", d])
            if self.enabled(["cb", d]):
                out.append(["cb", d])
            if self.enabled(["resume", d, 1]):
                out.append(["resume", d, 1 if rng.random() < 0.5 else 0])
            if self.enabled(["cancel", d]):
                out.append(["cancel", d])
        return out

    # ---- execution
    def _start(self, d: str) -> Any:
        s = self.stream
        op = self.ops[d]
        if op == "receive":
            return s.receive(1)
        if op == "receive_fds":
            return s.receive_fds(1, 1)
        if op == "send":
            return s.send(b"x")
        return s.send_fds(b"x", [0])

    def _run_task(self, d: str) -> str:
        """run the task's own handles until it is suspended on a future or over"""
        for _ in range(8):
            h = self.task_handle(d)
            if h is None:
                break
            self._run(h)
        t = self.tasks[d]
        assert t is not None
        if t.done():
            return self.outcome(d)
        return "blocked" if self.waiting(d) else "runnable?"

    def do(self, ev: list) -> None:
        k = ev[0]
        if not self.enabled(ev):
            self.log.append((ev, "DISABLED", self.obs()))
            return
        pre_closing = self.stream._closing
        reply = "env"
        if k == "aclose":
            pre = {d: self.pc(d) + ("+cb" if self.cb_handle(d) else "") for d in DIRS}
            if any(self.tasks[d] is not None and not self.tasks[d].done() for d in DIRS):  # type: ignore[union-attr]
                self.woke_somebody = self.woke_somebody or not pre_closing
            nrem = len(self.loop.removes)
            coro = self.stream.aclose()
            try:
                coro.send(None)
                self.problems.append("aclose() suspended")
                coro.close()
            except StopIteration:
                pass
            self.aclosed = True
            self.branches.append("aclose:again" if pre_closing else
                                 f"aclose:r={pre['r']},w={pre['w']},removed={len(self.loop.removes) - nrem}")
            # oracle: no registration survives the close
            left = [d for d in DIRS if self.loop.regs[d] is not None]
            if left:
                self.problems.append("registration-survives-close: after aclose() the loop still watches the "
                                     f"closed socket for {'/'.join(left)}")
        else:
            d = ev[1]
            if k == "call":
                self.calls[d] += 1
                self.cancelled_by_harness[d] = False
                self.sock.block[d] = bool(ev[2])
                n0 = self.sock.ncalls[d]
                self.tasks[d] = self.loop.create_task(self._start(d))
                reply = self._run_task(d)
                if self.sock.ncalls[d] != n0 + 1:
                    self.problems.append(f"harness: {self.sock.ncalls[d] - n0} socket calls in one call event")
                self.branches.append("call:" + reply + ("(closing)" if pre_closing else ""))
            elif k == "resume":
                self.sock.block[d] = bool(ev[2])
                reply = self._run_task(d)
                self.branches.append("resume:" + reply + ("(closing)" if pre_closing else ""))
            elif k == "fire":
                cb, args, _f = self.loop.regs[d]  # type: ignore[misc]
                cb(*args)
                self.branches.append("fire")
            elif k == "cb":
                nrem = len(self.loop.removes)
                self._run(self.cb_handle(d))
                self.branches.append("cb:remove" if len(self.loop.removes) > nrem else "cb:skip-remove(closing)")
            elif k == "cancel":
                self.cancelled_by_harness[d] = True
                self.tasks[d].cancel()  # type: ignore[union-attr]
                self.branches.append("cancel")
            # oracle: what an operation may do once the stream is closed
            if k in ("call", "resume") and pre_closing:
                want = "cancelled" if (k == "resume" and self.cancelled_by_harness[d]) else "closed"
                if reply == "blocked":
                    self.problems.append(f"blocks-after-close: {self.ops[d]}() on a closed stream waits again "
                                         "instead of raising ClosedResourceError")
                elif reply != want:
                    self.problems.append(f"wrong-outcome-after-close: {self.ops[d]}() ended with {reply}, "
                                         f"expected {want}")
        self.log.append((ev, reply, self.obs()))

    def drain(self) -> None:
        """run whatever is ready, FIFO, the peer staying silent"""
        for _ in range(40):
            hs = self._handles()
            if not hs:
                return
            h = hs[0]
            ev = None
            for d in DIRS:
                if h is self.cb_handle(d):
                    ev = ["cb", d]
                elif h is self.task_handle(d) and self.cb_handle(d) is None:
                    ev = ["resume", d, 1]
            if ev is None:
                self.problems.append(f"harness: unknown handle in the ready queue: {h!r}")
                self._run(h)
            else:
                self.do(ev)

    def finish(self) -> None:
        self.drain()
        if self.aclosed:
            for d in DIRS:
                t = self.tasks[d]
                if t is not None and not t.done():
                    self.problems.append(f"blocked-after-close: the task in {self.ops[d]}() is still blocked after "
                                         "aclose() and after everything scheduled has run")
            if any(self.loop.regs[d] is not None for d in DIRS):
                self.problems.append("registration-survives-close: a registration for the closed socket is left "
                                     "at the end")
        if self.loop.bad:
            self.problems.append(f"remove-on-closed-fd: remove_reader/remove_writer called {self.loop.bad}x for a "
                                 "closed descriptor that was still registered")
        for e in self.loop.errors:
            self.problems.append("exception-in-callback: " + e)

    def cleanup(self) -> None:
        for d in DIRS:
            t = self.tasks[d]
            if t is not None and not t.done():
                t.cancel()
        for _ in range(50):
            hs = self._handles()
            if not hs:
                break
            self._run(hs[0])
        for d in DIRS:
            t = self.tasks[d]
            if t is not None and t.done() and not t.cancelled():
                t.exception()  # mark retrieved
        self.loop.close()


def execute(case: dict, rng: random.Random | None = None) -> Runner:
    """run `case["events"]` (replay) or generate a schedule from `rng`, filling `case["events"]`"""
    prev = asyncio.events._get_running_loop()
    r = Runner(bool(case["defer"]), case["ops"])
    asyncio.events._set_running_loop(r.loop)
    try:
        if rng is None:
            for ev in case["events"]:
                r.do(list(ev))
        else:
            n = rng.randint(3, 16)
            close_at = rng.randrange(n) if rng.random() < 0.9 else -1
            again_at = rng.randrange(n) if rng.random() < 0.15 else -1
            for i in range(n):
                if i == close_at or i == again_at:
                    r.do(["aclose"])
                    continue
                evs = r.enabled_events(rng)
                if not evs:
                    continue
                # prefer starting operations early so that closes find blocked tasks
                starts = [e for e in evs if e[0] == "call"]
                if r.aclosed:
                    # a call on a closed stream fails at once: keep a few, favour what is in flight
                    rest = [e for e in evs if e[0] != "call"]
                    r.do(rng.choice(rest) if rest and rng.random() < 0.8 else rng.choice(evs))
                else:
                    r.do(rng.choice(starts) if starts and rng.random() < 0.45 else rng.choice(evs))
        r.finish()
        case["events"] = [e for e, _, _ in r.log]
        return r
    finally:
        try:
            r.cleanup()
        finally:
            asyncio.events._set_running_loop(prev)


# --------------------------------------------------------------------------- model comparison


def model_lines(case: dict) -> list[str]:
    lines = [f"new {MODEL_FIXED} {1 if case['defer'] else 0}"]
    for ev in case["events"]:
        lines.append(" ".join(str(x) for x in ev))
        lines.append("obs")
    return lines


def compare(case: dict, r: Runner, replies: list[str]) -> str | None:
    if replies[0] != "ok":
        return f"new: model {replies[0]!r}"
    for i, (ev, reply, obs) in enumerate(r.log):
        m_reply, m_obs = replies[1 + 2 * i], replies[2 + 2 * i]
        if reply != m_reply:
            return f"event {i} {ev}: implementation {reply!r}, model {m_reply!r}"
        if obs != m_obs:
            return f"after event {i} {ev}: implementation {obs!r}, model {m_obs!r}"
    return None


def directed_cases() -> list[dict]:
    out = []
    for defer in (False, True):
        for ro in R_OPS:
            for wo in W_OPS:
                for evs in (
                    [["call", "r", 1], ["call", "w", 1], ["aclose"]],
                    [["call", "r", 1], ["aclose"]],
                    [["call", "w", 1], ["aclose"]],
                    [["call", "r", 1], ["call", "w", 1], ["fire", "r"], ["aclose"]],
                    [["call", "r", 1], ["call", "w", 1], ["cancel", "w"], ["aclose"]],
                    [["call", "r", 1], ["call", "w", 1], ["fire", "w"], ["cb", "w"], ["aclose"]],
                    [["aclose"], ["call", "r", 1], ["call", "w", 0]],
                ):
                    out.append({"leg": "rawsock", "defer": defer, "ops": {"r": ro, "w": wo}, "events": evs})
    return out


def gen_case(rng: random.Random) -> dict:
    return {"leg": "rawsock", "defer": rng.random() < 0.5,
            "ops": {"r": rng.choice(R_OPS), "w": rng.choice(W_OPS)}, "events": []}


def _account(case: dict, r: Runner, res: Result) -> None:
    res.evaluations += 1
    st = res.stats
    ev_st = st.setdefault("rawsock_events", {})
    br_st = st.setdefault("rawsock_branches", {})
    out_st = st.setdefault("rawsock_outcomes", {})
    loop_st = st.setdefault("rawsock_loop_kind", {})
    loop_st["defer(uvloop-like)" if case["defer"] else "stock"] = loop_st.get(
        "defer(uvloop-like)" if case["defer"] else "stock", 0) + 1
    for ev, reply, _ in r.log:
        ev_st[ev[0]] = ev_st.get(ev[0], 0) + 1
        if ev[0] in ("call", "resume"):
            out_st[reply] = out_st.get(reply, 0) + 1
    for b in r.branches:
        br_st[b] = br_st.get(b, 0) + 1
    seen = set()
    vio_st = st.setdefault("rawsock_violations", {})
    for p in r.problems:
        sig = "C18:rawsock:" + p.split(":")[0]
        if sig in seen:
            continue
        seen.add(sig)
        vio_st[sig] = vio_st.get(sig, 0) + 1
        if vio_st[sig] <= MAX_VIOLATIONS_PER_SIGNATURE:
            res.violations.append(Violation(dict(case), p, sig))
    if r.woke_somebody and not r.problems:
        res.nontrivial.add(hash(repr((case["defer"], sorted(case["ops"].items()), case["events"]))))
        if len(res.samples) < 4:
            res.samples.append({"defer": case["defer"], "ops": case["ops"],
                                "trace": [[" ".join(map(str, e)), rep] for e, rep, _ in r.log]})


def _flush(batch: list[tuple[dict, Runner]], res: Result) -> None:
    if not batch:
        return
    lines: list[str] = []
    spans = []
    for case, _r in batch:
        ls = model_lines(case)
        spans.append((len(lines), len(ls)))
        lines += ls
    replies = run_model(MODEL, lines)
    for (case, r), (a, n) in zip(batch, spans):
        bad = compare(case, r, replies[a: a + n])
        if bad:
            res.disagreements.append(Disagreement(dict(case), "rawsock: " + bad))
        else:
            res.traces_validated += 1
    batch.clear()


RULE = ("raw-socket leg: random schedules of receive/send (and *_fds) blocked or not, readiness, done "
        "callbacks, wake-ups, cancellations and aclose() at every point, on a stock-like and a uvloop-like "
        "(close-deferring) loop; non-trivial = aclose() ran while at least one operation was in flight")


def run(ctx: Ctx, budget_s: float | None = None) -> Result:
    """extra leg of C18; deterministic in ctx.rng (the time budget only cuts the sequence short)"""
    res = Result(rule=RULE)
    if budget_s is None:
        budget_s = 5.0 if ctx.tier == "quick" else 60.0
    t_end = time.time() + budget_s
    if ctx.deadline:
        t_end = min(t_end, ctx.deadline - 2.0)
    rng = ctx.rng
    batch: list[tuple[dict, Runner]] = []
    for case in directed_cases():
        r = execute(case)
        _account(case, r, res)
        batch.append((case, r))
    _flush(batch, res)
    n = ctx.n(10000, 130000)
    done = 0
    while done < n and time.time() < t_end:
        for _ in range(min(250, n - done)):
            case = gen_case(rng)
            r = execute(case, rng)
            _account(case, r, res)
            batch.append((case, r))
            done += 1
        _flush(batch, res)
    res.stats["rawsock_random_cases"] = done
    return res


def replay(ctx: Ctx, case: Any) -> Result:
    res = Result(rule="replay")
    case = dict(case)
    r = execute(case)
    _account(case, r, res)
    _flush([(case, r)], res)
    return res


if __name__ == "__main__":
    import argparse
    import json
    import os
    import sys

    ap = argparse.ArgumentParser()
    ap.add_argument("--tier", default="quick")
    ap.add_argument("--seed", type=int, default=int(os.environ.get("VERIF_SEED", "0") or 0))
    ap.add_argument("--budget", type=float, default=None)
    ap.add_argument("--replay", default=None)
    ap.add_argument("--old-code-model", action="store_true",
                    help="compare with the model of the code before afa90d6 (fixed = false)")
    a = ap.parse_args()
    if a.old_code_model:
        MODEL_FIXED = 0
    t0 = time.time()
    c = Ctx("C18", "thorough" if a.tier == "thorough" else "quick", a.seed,
            random.Random(f"C18rawsock:{a.seed}"), 1.0, None, 0.0)
    if a.replay:
        payload = json.loads(open(a.replay).read())
        out = replay(c, payload.get("case") or payload)
    else:
        out = run(c, a.budget)
    print(json.dumps(out.stats, indent=1, sort_keys=True))
    for v in out.violations[:8]:
        print("VIOLATION", v.signature, "|", v.what, "|", json.dumps(v.case))
    for dis in out.disagreements[:5]:
        print("DISAGREEMENT", dis.detail, "|", json.dumps(dis.case))
    print(f"rawsock tier={c.tier} seed={a.seed} cases={out.evaluations} traces={out.traces_validated} "
          f"nontrivial={len(out.nontrivial)} disagreements={len(out.disagreements)} "
          f"violations={len(out.violations)} wall={time.time() - t0:.1f}s")
    sys.exit(1 if out.violations or out.disagreements else 0)
