"""C15 BlockingPortal: real caller threads against a real portal thread, replayed in the Lean model
`portal` (trace validation at settle granularity) + an independent oracle from the property text.

A *case* is
  {"loop": "asyncio"|"uvloop",
   "calls": [{"api": "call"|"soon"|"task", "fn": "sync"|"coro", "end": "v"|"e", "started": bool}],
   "steps": [["issue", c] | ["release", c] | ["cancelfut", c] | ["stop", 0|1] | ["exit", 0|1]
             | ["block"] | ["unblock"]]}

`issue c` starts a caller thread that performs call c through the portal (`portal.call`,
`start_task_soon`, `start_task`).  Plain callables return / raise at once; coroutine functions count
their execution, block on an `anyio.Event` gate (opened by `release c` through
`loop.call_soon_threadsafe`) and then return / raise; a cancellation is logged and propagated.
`cancelfut c` calls `Future.cancel()` from a foreign thread, `stop x` is
`portal.call(portal.stop, x)`, `exit x` leaves `start_blocking_portal()` in a helper thread (x = 1:
with an exception in the body, i.e. cancel_remaining).  `block` / `unblock` park the event loop in a
plain `call_soon_threadsafe` callback so that requests pile up in front of it (calls that pass
`_check_running` before a `stop` but begin after it, futures cancelled before their task began).
After every step the harness *settles*: bounded polling until every call is refused, parked at
its gate or resolved, followed by round trips through the loop.
"""

from __future__ import annotations

import asyncio
import concurrent.futures
import random
import threading
import time
from typing import Any

import anyio
from anyio.from_thread import start_blocking_portal

from .common import Ctx, Disagreement, Result, Violation, load_corpus, run_model

CANCELLED = asyncio.CancelledError
WAIT = 6.0


class HarnessError(Exception):
    """infrastructure problem (a bounded wait timed out ...): exit code 2, never a VIOLATION"""


class TagError(Exception):
    pass


class BodyError(Exception):
    pass


def _mk_loop_class(base: type) -> type:
    class CountingLoop(base):  # type: ignore[misc, valid-type]
        c15_posted = 0

        def call_soon_threadsafe(self, callback, *args, context=None):  # type: ignore[override]
            h = super().call_soon_threadsafe(callback, *args, context=context)
            type(self).c15_posted += 1
            return h

    return CountingLoop


_LOOPS: dict[str, type] = {}


def loop_class(name: str) -> type:
    if name not in _LOOPS:
        if name == "uvloop":
            import uvloop

            _LOOPS[name] = _mk_loop_class(uvloop.Loop)
        else:
            _LOOPS[name] = _mk_loop_class(asyncio.SelectorEventLoop)
    return _LOOPS[name]


class Run:
    def __init__(self, case: dict) -> None:
        self.case = case
        self.calls = case["calls"]
        n = self.n = len(self.calls)
        self.lock = threading.Lock()
        self.seq = 0
        self.log: list[tuple] = []
        self.issued = [False] * n
        self.threads: list[threading.Thread | None] = [None] * n
        self.caller_out: list[Any] = [None] * n  # ("v", x) | ("e", exc)  outcome of the API call
        self.future: list[concurrent.futures.Future | None] = [None] * n
        self.started_val: list[Any] = [None] * n
        self.execs = [0] * n
        self.entered = [False] * n
        self.ended: list[Any] = [None] * n  # ("v", obj) | ("e", exc) | ("c", None)
        self.exec_tid: list[Any] = [None] * n
        self.released = [False] * n
        self.gates: list[Any] = [None] * n
        self.fut_cancel_ok: dict[int, bool] = {}
        self.stopped = False
        self.stop_cr = False
        self.exit_thread: threading.Thread | None = None
        self.exit_done = False
        self.exit_exc: Any = None
        self.blocked = False
        self.blockers: list[tuple[threading.Event, threading.Event]] = []  # (gate, parked), FIFO
        self.all_gates: list[threading.Event] = []
        self.nblock_posted = 0  # blockers posted so far
        self.nblock_parked = 0  # blockers that have started to block the loop
        self.block_idx = [0] * n  # blockers posted when call c's request was posted
        self.stop_pending: Any = None
        self.lines: list[tuple[str, str | None]] = []
        self.loop: Any = None
        self.loop_tid = 0
        self.portal: Any = None
        self.cm: Any = None
        self.helpers: list[threading.Thread] = []
        self.end_state: dict[str, Any] = {}
        self.values = [("val", i) for i in range(n)]
        self.errors = [TagError(i) for i in range(n)]
        self.loop_cls = loop_class(case.get("loop", "asyncio"))

    def ev(self, kind: str, *rest: Any) -> int:
        with self.lock:
            self.seq += 1
            self.log.append((self.seq, kind, *rest))
            return self.seq

    # ------------------------------------------------------------ callables (run in the loop thread)
    def mk_sync(self, c: int):
        def fn() -> Any:
            self.execs[c] += 1
            self.exec_tid[c] = threading.get_ident()
            self.entered[c] = True
            self.ev("exec", c)
            if self.calls[c]["end"] == "e":
                self.ended[c] = ("e", self.errors[c])
                self.ev("end", c, "e")
                raise self.errors[c]
            self.ended[c] = ("v", self.values[c])
            self.ev("end", c, "v")
            return self.values[c]

        return fn

    def mk_coro(self, c: int):
        spec = self.calls[c]

        async def fn(*, task_status: Any = None) -> Any:
            self.execs[c] += 1
            self.exec_tid[c] = threading.get_ident()
            self.gates[c] = anyio.Event()
            self.ev("exec", c)
            try:
                if task_status is not None and spec.get("started"):
                    task_status.started(("started", c))
                self.entered[c] = True
                await self.gates[c].wait()
                if spec["end"] == "e":
                    self.ended[c] = ("e", self.errors[c])
                    self.ev("end", c, "e")
                    raise self.errors[c]
                self.ended[c] = ("v", self.values[c])
                self.ev("end", c, "v")
                return self.values[c]
            except CANCELLED:
                self.ended[c] = ("c", None)
                self.ev("end", c, "c")
                raise

        return fn

    # ------------------------------------------------------------ caller threads
    def caller(self, c: int) -> None:
        spec = self.calls[c]
        fn = self.mk_sync(c) if spec["fn"] == "sync" else self.mk_coro(c)
        try:
            if spec["api"] == "call":
                out = ("v", self.portal.call(fn))
            elif spec["api"] == "soon":
                f = self.portal.start_task_soon(fn)
                self.future[c] = f
                out = ("v", f)
            else:
                f, v = self.portal.start_task(fn)
                self.future[c] = f
                self.started_val[c] = v
                out = ("v", f)
        except BaseException as e:
            out = ("e", e)
        self.caller_out[c] = out
        self.ev("caller_out", c, out[0], type(out[1]).__name__)

    # ------------------------------------------------------------ settle
    def call_stable(self, c: int) -> bool:
        if not self.issued[c]:
            return True
        spec = self.calls[c]
        out = self.caller_out[c]
        if self.blocked and self.execs[c] == 0 and not (out is not None and out[0] == "e"):
            if self.block_idx[c] >= self.nblock_parked:
                return True  # request still parked in front of the blocked loop
            # its start_soon request ran before the current blocker: the caller must have the Future
            if spec["api"] == "soon":
                return self.future[c] is not None
            return True
        if out is not None and out[0] == "e" and self.execs[c] == 0:
            return True  # refused
        f = self.future[c]
        at_gate = self.entered[c] and self.ended[c] is None and not self.released[c]
        if at_gate:
            if spec["api"] == "soon":
                return f is not None
            if spec["api"] == "task" and spec.get("started"):
                return out is not None
            return True
        if self.ended[c] is not None:
            if spec["api"] == "call":
                return out is not None
            if spec["api"] == "soon":
                return f is not None and f.done()
            return out is not None and (f is None or f.done())
        return False

    def roundtrip(self) -> None:
        if self.exit_done or self.blocked or self.loop is None or self.loop.is_closed():
            return
        for _ in range(3):
            e = threading.Event()
            try:
                self.loop.call_soon_threadsafe(e.set)
            except RuntimeError:
                return
            deadline = time.monotonic() + WAIT
            while not e.wait(0.002):
                if self.exit_done or self.loop.is_closed() or not self.loop.is_running():
                    return
                if time.monotonic() > deadline:
                    raise HarnessError("loop round trip timed out")

    def describe(self) -> str:
        return (f"issued={self.issued} entered={self.entered} ended={self.ended} released={self.released} "
                f"execs={self.execs} out={[o and o[0] for o in self.caller_out]} "
                f"fut={[f and f.done() for f in self.future]} blocked={self.blocked} exit={self.exit_done}")

    def settle(self, extra=None) -> None:
        self.roundtrip()
        deadline = time.monotonic() + WAIT
        ok = 0
        while True:
            if all(self.call_stable(c) for c in range(self.n)) and (extra is None or extra()):
                ok += 1
                if ok >= 2:
                    break
                self.roundtrip()
                continue
            ok = 0
            if time.monotonic() > deadline:
                hung = [c for c in range(self.n) if self.issued[c] and self.ended[c] is not None
                        and not self.call_stable(c)]
                if hung and not self.blocked:
                    # the callable is over but its caller has no answer: that is the property failing
                    # ("no call is left hanging"), not an infrastructure problem
                    self.end_state["hung_calls"] = hung
                    raise _ExitHung()
                raise HarnessError("settle timed out: " + self.describe())
            time.sleep(0.0003)
        # an exit in progress completes as soon as nothing is left to join
        if self.exit_thread is not None and not self.exit_done and not self.blocked:
            live = [c for c in range(self.n) if self.entered[c] and self.ended[c] is None]
            if not live:
                self.exit_thread.join(WAIT)
                if self.exit_thread.is_alive():
                    self.end_state["exit_hung"] = True
                    raise _ExitHung()

    # ------------------------------------------------------------ observation
    def fut_str(self, c: int) -> str:
        spec = self.calls[c]
        out = self.caller_out[c]
        if out is not None and out[0] == "e" and self.execs[c] == 0 and isinstance(out[1], RuntimeError):
            return "refused"
        if spec["api"] == "call":
            if out is None:
                return "pending"
            if out[0] == "v":
                return f"r:v{self.ident(out[1], 'v')}"
            if isinstance(out[1], concurrent.futures.CancelledError):
                return "cancelled"
            return f"r:e{self.ident(out[1], 'e')}"
        f = self.future[c]
        if f is None:
            return "?"
        if not f.done():
            return "pending"
        if f.cancelled():
            return "cancelled"
        e = f.exception()
        if e is not None:
            return f"r:e{self.ident(e, 'e')}"
        return f"r:v{self.ident(f.result(), 'v')}"

    def ident(self, obj: Any, kind: str) -> str:
        pool = self.values if kind == "v" else self.errors
        for j, x in enumerate(pool):
            if x is obj:
                return str(j)
        return f"?{type(obj).__name__}"

    def status_str(self, c: int) -> str:
        spec = self.calls[c]
        if spec["api"] != "task" or self.fut_str(c) == "refused":
            return "-"
        out = self.caller_out[c]
        if out is None:
            return "pending"
        if out[0] == "v":
            return f"started{c}" if self.started_val[c] == ("started", c) else f"started?{self.started_val[c]!r}"
        e = out[1]
        if isinstance(e, concurrent.futures.CancelledError):
            return "failed:cancelled"
        if isinstance(e, RuntimeError) and "without calling" in str(e):
            return "nostarted"
        if isinstance(e, TagError):
            return f"failed:r:e{self.ident(e, 'e')}"
        return f"failed:?{type(e).__name__}"

    def obs(self) -> str:
        per = " ".join(f"{c}={self.fut_str(c)}/{self.execs[c]}/{self.status_str(c)}"
                       for c in range(self.n) if self.issued[c])
        return f"exited={int(self.exit_done)} | {per}"

    def snap(self) -> None:
        o = self.obs()
        self.ev("obs", o)
        self.lines.append(("settle", "ok"))
        self.lines.append(("obs", o))

    # ------------------------------------------------------------ steps
    def helper(self, target, *args) -> threading.Thread:
        t = threading.Thread(target=target, args=args, daemon=True, name="c15-helper")
        self.helpers.append(t)
        t.start()
        return t

    def wait_posted(self, before: int) -> None:
        deadline = time.monotonic() + WAIT
        while self.loop_cls.c15_posted <= before:
            if time.monotonic() > deadline:
                raise HarnessError("request never reached call_soon_threadsafe")
            time.sleep(0.0002)

    def do_issue(self, c: int) -> None:
        spec = self.calls[c]
        self.issued[c] = True
        self.block_idx[c] = self.nblock_posted if self.blocked else 0
        self.ev("issue", c, self.stopped)
        before = self.loop_cls.c15_posted
        t = threading.Thread(target=self.caller, args=(c,), daemon=True, name=f"c15-caller-{c}")
        self.threads[c] = t
        t.start()
        if self.blocked:
            # either refused at once or parked in front of the blocked loop
            deadline = time.monotonic() + WAIT
            while self.caller_out[c] is None and self.loop_cls.c15_posted <= before:
                if time.monotonic() > deadline:
                    raise HarnessError("issue while blocked: neither refused nor posted")
                time.sleep(0.0002)
        self.settle()
        kind = ("sync " + spec["end"]) if spec["fn"] == "sync" else (
            "task s" + str(int(bool(spec.get("started")))) if spec["api"] == "task" else "coro")
        refused_now = self.fut_str(c) == "refused" and not self.blocked and self.stopped_before_issue(c)
        self.lines.append((f"issue {c} {kind}", None))
        self.snap()

    def stopped_before_issue(self, c: int) -> bool:
        for rec in self.log:
            if rec[1] == "issue" and rec[2] == c:
                return bool(rec[3])
        return False

    def do_release(self, c: int) -> None:
        if not (self.entered[c] and self.ended[c] is None and not self.released[c]) or self.blocked:
            return
        self.released[c] = True
        self.ev("release", c)
        self.loop.call_soon_threadsafe(self.gates[c].set)
        self.settle()
        end = self.ended[c]
        self.lines.append((f"finish {c} {end[0]}", "env"))
        self.snap()

    def do_cancelfut(self, c: int) -> None:
        f = self.future[c]
        if f is None or c in self.fut_cancel_ok:
            return
        was_done = f.done()
        res: dict[str, Any] = {}

        def go() -> None:
            res["ok"] = f.cancel()

        t = self.helper(go)
        if not self.blocked:
            t.join(WAIT)
            if t.is_alive():
                raise HarnessError("Future.cancel() did not return")
        else:
            deadline = time.monotonic() + WAIT
            while not f.done():
                if time.monotonic() > deadline:
                    raise HarnessError("Future.cancel() had no effect while the loop was blocked")
                time.sleep(0.0002)
        self.fut_cancel_ok[c] = (not was_done) and f.cancelled()
        self.ev("cancelfut", c, self.fut_cancel_ok[c], self.entered[c], self.ended[c] is not None)
        self.settle()
        self.lines.append((f"cancelfut {c}", "env"))
        self.snap()

    async def _stop_in_loop(self, cr: bool) -> None:
        await self.portal.stop(cr)
        self.ev("stop", int(cr))  # logged in the loop thread: exact w.r.t. the callables' own events

    def do_stop_again(self) -> None:
        """a second stop, now with cancel_remaining: only code already in the loop can still call it
        (foreign threads are refused once the portal has stopped)"""
        done = threading.Event()
        res: dict[str, Any] = {}

        def post() -> None:
            async def again() -> None:
                try:
                    await self.portal.stop(True)
                    self.ev("stop", 1)
                except BaseException as e:  # noqa: BLE001
                    res["exc"] = e
                finally:
                    done.set()

            res["task"] = asyncio.ensure_future(again())

        self.loop.call_soon_threadsafe(post)
        if not done.wait(WAIT):
            raise HarnessError("second portal.stop(cancel_remaining=True) did not run")
        if "exc" in res:
            raise HarnessError(f"second portal.stop raised {res['exc']!r}")
        self.stop_cr = True
        self.settle()
        self.lines.append(("stopinloop 1", "env"))
        self.snap()

    def do_stop(self, cr: int) -> None:
        if (self.stopped and cr and not self.stop_cr and self.exit_thread is None and not self.blocked
                and self.stop_pending is None and self.loop is not None and not self.loop.is_closed()
                and self.loop.is_running()
                and any(self.entered[c] and self.ended[c] is None and not self.released[c]
                        for c in range(len(self.entered)))):
            # (only while some call is parked at its gate: otherwise the portal's loop is already
            # winding down by itself and nothing can be posted to it any more)
            self.do_stop_again()
            return
        if self.stopped or self.exit_thread is not None:
            return
        res: dict[str, Any] = {}

        def go() -> None:
            try:
                self.portal.call(self._stop_in_loop, bool(cr))
                res["ok"] = True
            except BaseException as e:
                res["exc"] = e

        before = self.loop_cls.c15_posted
        t = self.helper(go)
        if self.blocked:
            self.wait_posted(before)
            self.stop_pending = (t, res, cr, self.nblock_posted)
            self.stopped = True
            self.stop_cr = self.stop_cr or bool(cr)
            self.lines.append((f"stop {cr}", "env"))
            self.snap()
            return
        else:
            t.join(WAIT)
            if t.is_alive():
                raise HarnessError("portal.call(portal.stop) did not return")
            if "exc" in res:
                # nobody stopped the portal, yet it refuses: it shut down on its own
                self.end_state["portal_died"] = repr(res["exc"])
                raise _ExitHung()
        self.stopped = True
        self.stop_cr = self.stop_cr or bool(cr)
        self.settle()
        self.lines.append((f"stop {cr}", "env"))
        self.snap()

    def do_exit(self, x: int) -> None:
        if self.exit_thread is not None or self.blocked:
            return

        def go() -> None:
            try:
                if x:
                    try:
                        raise BodyError("body failed")
                    except BodyError as e:
                        self.cm.__exit__(BodyError, e, e.__traceback__)
                else:
                    self.cm.__exit__(None, None, None)
            except BaseException as e:
                self.exit_exc = e
            self.ev("exit_done")
            self.exit_done = True

        if not self.stopped:
            self.stop_cr = self.stop_cr or bool(x)
        self.ev("exit_begin", x, self.stopped)
        self.stopped = True
        self.exit_thread = self.helper(go)
        # the exit's own stop() has to land before we look again
        deadline = time.monotonic() + WAIT
        def still_running() -> bool:
            # the public way to ask "has stop() landed?": a stopped portal refuses start_task_soon
            tid = getattr(self.portal, "_event_loop_thread_id", False)
            if tid is not False:
                return tid is not None
            try:
                self.portal._check_running()  # type: ignore[attr-defined]
                return True
            except BaseException:  # noqa: BLE001
                return False

        while not self.exit_done and still_running():  # bounded wait only
            if time.monotonic() > deadline:
                raise HarnessError("exit never stopped the portal")
            time.sleep(0.0002)
        self.settle()
        self.lines.append((f"exitreq {x}", "ok"))
        self.snap()

    def do_block(self) -> None:
        if self.exit_thread is not None:
            return
        gate = threading.Event()
        parked = threading.Event()

        def blocker() -> None:
            self.nblock_parked += 1
            parked.set()
            if not gate.wait(WAIT * 4):
                self.ev("blocker_timeout")

        self.all_gates.append(gate)
        before = self.loop_cls.c15_posted
        self.loop.call_soon_threadsafe(blocker)
        self.nblock_posted += 1
        if not self.blocked:
            if not parked.wait(WAIT):
                raise HarnessError("blocker never ran")
        else:
            self.wait_posted(before)
        self.blockers.append((gate, parked))
        self.blocked = True
        self.lines.append(("block", "ok"))

    def do_unblock(self) -> None:
        if not self.blocked:
            return
        gate, _ = self.blockers.pop(0)
        gate.set()
        if self.blockers:
            if not self.blockers[0][1].wait(WAIT):
                raise HarnessError("next blocker never ran")
        else:
            self.blocked = False
        sp = self.stop_pending
        if sp is not None and (not self.blocked or sp[3] < self.nblock_parked):
            # the parked portal.stop() runs one loop cycle after its request: give it round trips
            if not self.blocked:
                sp[0].join(WAIT)
                if sp[0].is_alive():
                    raise HarnessError("parked portal.stop never returned")
                self.stop_pending = None
        self.settle()
        self.lines.append(("unblock", "ok"))
        self.snap()

    def run(self) -> "Run":
        self.loop_cls.c15_posted = 0
        self.cm = start_blocking_portal(backend_options={"loop_factory": self.loop_cls})
        self.portal = self.cm.__enter__()
        portal_thread = [t for t in threading.enumerate() if t.name.startswith("asyncio-portal-")]
        try:
            self.loop = self.portal.call(asyncio.get_running_loop)
            self.loop_tid = self.portal.call(threading.get_ident)
            self.lines.append(("new", "ok"))
            try:
                for step in self.case["steps"]:
                    op = step[0]
                    if op == "issue":
                        if not self.issued[step[1]]:
                            self.do_issue(step[1])
                    elif op == "release":
                        self.do_release(step[1])
                    elif op == "cancelfut":
                        self.do_cancelfut(step[1])
                    elif op == "stop":
                        self.do_stop(step[1])
                    elif op == "exit":
                        self.do_exit(step[1])
                    elif op == "block":
                        self.do_block()
                    elif op == "unblock":
                        self.do_unblock()
                    else:
                        raise ValueError(step)
                while self.blocked:
                    self.do_unblock()
                # the end: leave the portal; whatever is still parked at a gate must hold the exit up
                self.do_exit(0)
                self.end_state["exit_done_while_live"] = self.exit_done and any(
                    self.entered[c] and self.ended[c] is None for c in range(self.n))
                for c in range(self.n):
                    self.do_release(c)
            except _ExitHung:
                pass
            if self.exit_thread is not None:
                self.exit_thread.join(WAIT)
            self.end_state["exit_alive"] = self.exit_thread is not None and self.exit_thread.is_alive()
        finally:
            for g0 in self.all_gates:
                g0.set()
            for c in range(self.n):
                g = self.gates[c]
                if g is not None and self.loop is not None and not self.loop.is_closed():
                    try:
                        self.loop.call_soon_threadsafe(g.set)
                    except RuntimeError:
                        pass
        for t in self.threads:
            if t is not None:
                t.join(1.0)
        self.end_state["callers_alive"] = [c for c, t in enumerate(self.threads) if t is not None and t.is_alive()]
        self.end_state["portal_alive"] = any(t.is_alive() for t in portal_thread)
        self.end_state["unfinished"] = [c for c in range(self.n) if self.entered[c] and self.ended[c] is None]
        return self


class _ExitHung(Exception):
    pass


# --------------------------------------------------------------------------- oracle


def oracle(r: Run) -> str | None:
    case = r.case
    exit_seq = None
    end_seq: dict[int, int] = {}
    stop_seq = None
    cr_seq = None  # first stop(cancel_remaining=True)
    exec_seq: dict[int, int] = {}
    issue_seq: dict[int, int] = {}
    for rec in r.log:
        seq, kind = rec[0], rec[1]
        if kind == "stop" and rec[2] == 1 and cr_seq is None:
            cr_seq = seq
        if kind == "exec":
            exec_seq.setdefault(rec[2], seq)
        if kind == "exit_done":
            exit_seq = seq
        elif kind == "end":
            end_seq[rec[2]] = seq
        elif kind in ("stop", "exit_begin") and stop_seq is None:
            stop_seq = seq
        elif kind == "issue":
            issue_seq[rec[2]] = seq
        elif kind == "blocker_timeout":
            return "harness: blocker timed out"
    if r.end_state.get("portal_died"):
        return ("portal.call(portal.stop) was refused although the portal had not been stopped: the portal "
                f"shut down on its own ({r.end_state['portal_died']})")
    if r.end_state.get("hung_calls"):
        c = r.end_state["hung_calls"][0]
        return (f"call {c}: the callable finished ({r.ended[c][0]}) but the caller was left hanging "
                f"(no result, exception or cancellation delivered within {WAIT} s)")
    if r.end_state.get("exit_hung") or r.end_state.get("exit_alive"):
        return ("leaving start_blocking_portal() did not complete although every task started through "
                "the portal has finished")
    if r.end_state.get("exit_done_while_live"):
        return "leaving start_blocking_portal() completed while a task started through the portal was still running"
    cancel_all = r.stop_cr
    for c in range(r.n):
        if not r.issued[c]:
            continue
        spec = case["calls"][c]
        out = r.caller_out[c]
        after_stop = stop_seq is not None and issue_seq[c] > stop_seq
        if r.execs[c] > 1:
            return f"call {c}: the callable was executed {r.execs[c]} times"
        if r.entered[c] and r.exec_tid[c] != r.loop_tid:
            return f"call {c}: the callable did not run in the event loop thread"
        if after_stop:
            if r.execs[c] != 0:
                return f"call {c} was issued after the portal had been stopped but its callable was executed"
            if out is None or out[0] != "e" or not isinstance(out[1], RuntimeError):
                return (f"call {c} was issued after the portal had been stopped and was not refused with "
                        f"RuntimeError: {None if out is None else out[1]!r}")
            continue
        if c in r.end_state.get("callers_alive", []):
            return f"call {c}: the caller thread is still blocked after the portal has been left"
        if out is None:
            return f"call {c}: no outcome"
        refused = out[0] == "e" and r.execs[c] == 0
        if refused:
            # only legitimate when the request raced with a stop (it was parked in front of a blocked
            # loop that then stopped the portal); otherwise an accepted call must be executed
            if stop_seq is None:
                return f"call {c} was refused ({out[1]!r}) although the portal was never stopped"
            if not isinstance(out[1], RuntimeError):
                return f"call {c} was not executed and did not raise RuntimeError: {out[1]!r}"
            continue
        if r.execs[c] != 1:
            return f"call {c} was accepted but its callable was executed {r.execs[c]} times"
        end = r.ended[c]
        if end is None:
            return f"call {c}: its task never finished"
        if exit_seq is not None and end_seq.get(c, 0) > exit_seq:
            return f"call {c}: its task finished after start_blocking_portal() had been left"
        # --- the answer
        f = r.future[c]
        fut_cancelled_by_caller = r.fut_cancel_ok.get(c, False)
        if spec["api"] == "call":
            got = out
            if end[0] == "v" and not (got[0] == "v" and got[1] is end[1]):
                return f"portal.call #{c} returned {got[1]!r}, the callable returned {end[1]!r}"
            if end[0] == "e" and not (got[0] == "e" and got[1] is end[1]):
                return f"portal.call #{c} raised {got[1]!r}, the callable raised {end[1]!r}"
            if end[0] == "c" and not (got[0] == "e" and isinstance(got[1], concurrent.futures.CancelledError)):
                return f"portal.call #{c}: the task was cancelled but the caller got {got[1]!r}"
        else:
            if spec["api"] == "task":
                st = r.status_str(c)
                if spec.get("started"):
                    if st != f"started{c}":
                        return f"start_task #{c}: started() was called but the caller got {st}"
                else:
                    want = {"v": "nostarted", "e": f"failed:r:e{c}", "c": "failed:cancelled"}[end[0]]
                    if st != want:
                        return f"start_task #{c}: the task ended ({end[0]}) without started(); caller got {st}, expected {want}"
            if f is not None:
                if not f.done():
                    return f"call {c}: the task has finished but its Future is still pending"
                if fut_cancelled_by_caller:
                    if not f.cancelled():
                        return f"call {c}: Future.cancel() succeeded but the Future is not cancelled"
                elif end[0] == "c":
                    if not f.cancelled():
                        return f"call {c}: the task was cancelled but its Future is not"
                elif f.cancelled():
                    return f"call {c}: the Future is cancelled although nobody cancelled it and the task ended {end[0]}"
                elif end[0] == "v":
                    if f.exception() is not None or f.result() is not end[1]:
                        return f"call {c}: Future holds {f.exception() or f.result()!r}, the callable returned {end[1]!r}"
                elif f.exception() is not end[1]:
                    return f"call {c}: Future holds {f.exception()!r}, the callable raised {end[1]!r}"
        # --- stop(cancel_remaining=True) cancels the tasks that are running at that moment
        if (cr_seq is not None and spec["fn"] == "coro" and c in exec_seq and exec_seq[c] < cr_seq
                and end_seq.get(c, cr_seq + 1) > cr_seq and end[0] != "c"):
            return (f"call {c}'s task was running when stop(cancel_remaining=True) was executed but it was "
                    f"not cancelled (it ended {end[0]})")
        # --- cancellation reaches exactly the calls it was aimed at
        if end[0] == "c" and not fut_cancelled_by_caller and not cancel_all:
            return (f"call {c}'s task was cancelled although its Future was not cancelled and "
                    f"cancel_remaining was not requested")
        if fut_cancelled_by_caller and spec["fn"] == "coro" and end[0] != "c":
            # Future.cancel() succeeded while the coroutine was (or was going to be) parked at its gate
            began_after_stop = stop_seq is not None and _exec_seq(r, c) > stop_seq
            if not began_after_stop:
                return (f"call {c}: Future.cancel() succeeded while the task was running, but the task was "
                        f"not cancelled (it ended {end[0]})")
    if r.end_state.get("portal_alive"):
        return "the portal's event loop thread is still alive after start_blocking_portal() was left"
    if r.end_state.get("unfinished"):
        return f"tasks {r.end_state['unfinished']} never finished"
    return None


def _exec_seq(r: Run, c: int) -> int:
    for rec in r.log:
        if rec[1] == "exec" and rec[2] == c:
            return rec[0]
    return 0


# --------------------------------------------------------------------------- model comparison


def canon_model_obs(s: str, real: str) -> str:
    head, _, per = s.partition(" | ")
    f = dict(kv.split("=") for kv in head.split())
    rp = dict(tok.split("=", 1) for tok in real.partition(" | ")[2].split())
    out = []
    for tok in per.split():
        c, _, rest = tok.partition("=")
        fut, execs, st = rest.split("/")
        rr = rp.get(c)
        if rr is not None and rr.split("/")[0] == "?":
            fut = "?"  # start_task raised: the caller never saw the Future
        out.append(f"{c}={fut}/{execs}/{st}")
    return f"exited={f['exited']} | " + " ".join(out)


def compare(lines: list[tuple[str, str | None]], replies: list[str]) -> str | None:
    for k, ((req, exp), got) in enumerate(zip(lines, replies)):
        if req == "obs" and exp is not None:
            got = canon_model_obs(got, exp)
        if exp is not None and exp != got:
            return f"line {k}: request {req!r}: implementation {exp!r}, model {got!r}"
    return None


# --------------------------------------------------------------------------- generators


def gen_call(rng: random.Random) -> dict:
    api = rng.choice(["call", "soon", "soon", "task"])
    if api == "task":
        return {"api": api, "fn": "coro", "end": rng.choice("ve"), "started": rng.random() < 0.7}
    fn = "sync" if rng.random() < 0.25 else "coro"
    return {"api": api, "fn": fn, "end": rng.choice("vve"), "started": False}


def gen_case(rng: random.Random, max_n: int) -> dict:
    n = rng.randint(1, max_n)
    calls = [gen_call(rng) for _ in range(n)]
    k_before = rng.randint(max(1, n - 2), n)
    body: list[list] = []
    for c in range(k_before):
        body.append(["issue", c])
    tail: list[list] = []
    order = list(range(k_before))
    rng.shuffle(order)
    for c in order:
        r = rng.random()
        if r < 0.25 and calls[c]["api"] != "call":
            tail.append(["cancelfut", c])
            if rng.random() < 0.5:
                tail.append(["release", c])
        elif r < 0.85:
            tail.append(["release", c])
        # else: left at its gate until the very end
    # stop / exit somewhere in the tail
    r = rng.random()
    if r < 0.35:
        at = rng.randint(0, len(tail))
        tail.insert(at, ["stop", int(rng.random() < 0.5)])
        if tail[at][1] == 0 and rng.random() < 0.4:
            # a polite stop first, then (while calls are still running) one that cancels the rest
            tail.insert(rng.randint(at + 1, len(tail)), ["stop", 1])
    elif r < 0.6:
        tail.insert(rng.randint(0, len(tail)), ["exit", int(rng.random() < 0.5)])
    steps = body + tail
    for c in range(k_before, n):
        steps.insert(rng.randint(len(body), len(steps)), ["issue", c])
        if rng.random() < 0.6:
            steps.append(["release", c])
    return {"loop": rng.choice(["asyncio", "uvloop"]), "calls": calls, "steps": steps}


def gen_blocked(rng: random.Random) -> dict:
    """requests piled up in front of a blocked loop: calls that pass _check_running before a stop but
    begin after it; stop racing with issues; a second blocker behind the requests, so that the callers
    hold Futures of tasks that have not begun (Future.cancel() before the task's first step)"""
    n = rng.randint(2, 4)
    calls = [gen_call(rng) for _ in range(n)]
    for c in calls:
        if c["api"] == "task":
            c["api"] = "soon"
            c["started"] = False
    steps: list[list] = []
    k = rng.randint(0, n - 1)
    for c in range(k):
        steps.append(["issue", c])
    steps.append(["block"])
    parked: list[list] = [["issue", c] for c in range(k, n)]
    if rng.random() < 0.7:
        parked.insert(rng.randint(0, len(parked)), ["stop", int(rng.random() < 0.4)])
    steps += parked
    if rng.random() < 0.5:
        steps.append(["block"])
        steps.append(["unblock"])
        for c in range(k, n):
            if calls[c]["api"] == "soon" and rng.random() < 0.6:
                steps.append(["cancelfut", c])
    steps.append(["unblock"])
    order = list(range(n))
    rng.shuffle(order)
    for c in order:
        r = rng.random()
        if r < 0.25 and calls[c]["api"] == "soon":
            steps.append(["cancelfut", c])
        if r < 0.85:
            steps.append(["release", c])
    return {"loop": rng.choice(["asyncio", "uvloop"]), "calls": calls, "steps": steps}


# --------------------------------------------------------------------------- run


def run_cases(cases: list[dict], res: Result, ctx: Ctx | None = None) -> None:
    runs: list[Run] = []
    all_lines: list[str] = []
    for case in cases:
        if ctx is not None and ctx.time_left() < 8:
            res.stats["stopped_early"] = True
            break
        r = Run(case).run()
        runs.append(r)
        all_lines += [req for req, _ in r.lines]
        if r.end_state.get("hung_calls") or r.end_state.get("exit_hung"):
            res.stats["aborted_after_hang"] = True
            break
    all_lines.append("hits")
    replies = run_model("portal", all_lines)
    hits = replies[-1]
    pos = 0
    st = res.stats.setdefault("ops", {})
    oc = res.stats.setdefault("outcomes", {})
    for r in runs:
        case = r.case
        rep = replies[pos: pos + len(r.lines)]
        pos += len(r.lines)
        res.evaluations += 1
        st[f"loop:{case.get('loop', 'asyncio')}"] = st.get(f"loop:{case.get('loop', 'asyncio')}", 0) + 1
        for s in case["steps"]:
            k = "step:" + s[0] + (str(s[1]) if s[0] in ("stop", "exit") else "")
            st[k] = st.get(k, 0) + 1
        for c, spec in enumerate(case["calls"]):
            if r.issued[c]:
                k = f"api:{spec['api']}:{spec['fn']}"
                st[k] = st.get(k, 0) + 1
                o = r.fut_str(c)
                o = o[:3] if o.startswith("r:") else o
                oc[o] = oc.get(o, 0) + 1
                if spec["api"] == "task":
                    s2 = "status:" + r.status_str(c).rstrip("0123456789")
                    oc[s2] = oc.get(s2, 0) + 1
        bad = oracle(r)
        if bad:
            res.violations.append(Violation(case, bad, "C15:" + " ".join(bad.split()[:7])))
        d = compare(r.lines, rep)
        if d:
            res.disagreements.append(Disagreement(case, d))
        else:
            res.traces_validated += 1
        nontrivial = any(s[0] in ("cancelfut", "stop", "exit", "block") for s in case["steps"]) or any(
            e is not None and e[0] != "v" for e in r.ended)
        if nontrivial:
            res.nontrivial.add(hash(tuple(r.lines)))
            if len(res.samples) < 4:
                res.samples.append({"case": case, "trace": [f"{q} -> {e}" for q, e in r.lines[:16]]})
    bh = res.stats.setdefault("model_branch_hits", {})
    for kv in hits.split():
        k, _, v = kv.partition("=")
        bh[k] = bh.get(k, 0) + int(v)


ALL_BRANCHES = [
    "issue", "issue-refused", "spawn", "spawn-refused", "beginSync", "beginSync-future-cancelled",
    "begin", "begin-after-stop", "begin-future-cancelled", "started", "finish-outcome",
    "finish-outcome-dropped", "finish-cancelled", "finish-cancelled-fut-done", "cancelFuture-noop",
    "cancelFuture@spawned", "cancelFuture@running", "cancelFuture@running-bystop", "stop",
    "stop-cancel-remaining", "exit",
]


class _Boom(BaseException):
    """neither an Exception nor a cancellation"""


def run_baseexception_leg(res: Result, only: dict | None = None) -> None:
    """A portal task that raises a BaseException which is not an Exception: the caller still gets
    exactly that exception (the portal itself goes down with it, which is why this is a leg of its
    own: oracle only, outside the model)."""
    from anyio.from_thread import start_blocking_portal

    for loop in ("asyncio", "uvloop"):
        for api in ("start_task_soon", "call"):
            for kind in ("sync", "coro"):
                case = {"baseexception": {"loop": loop, "api": api, "fn": kind}}
                if only is not None and only != case["baseexception"]:
                    continue
                got: dict[str, Any] = {}
                boom = _Boom("x")

                def target() -> None:
                    try:
                        with start_blocking_portal("asyncio", {"use_uvloop": loop == "uvloop"}) as portal:
                            if kind == "sync":
                                def f() -> None:
                                    raise boom
                            else:
                                async def f() -> None:  # type: ignore[misc]
                                    raise boom
                            try:
                                if api == "call":
                                    # portal.call() blocks without a time limit: run it in a helper so
                                    # that a lost exception shows as "hung", not as a stuck check
                                    box: dict[str, Any] = {}

                                    def caller() -> None:
                                        try:
                                            portal.call(f)
                                            box["out"] = "returned"
                                        except BaseException as e:  # noqa: BLE001
                                            box["out"] = e

                                    th = threading.Thread(target=caller, daemon=True)
                                    th.start()
                                    th.join(4)
                                    out = box.get("out", "hung")
                                    if isinstance(out, BaseException):
                                        raise out
                                    got["out"] = out
                                else:
                                    portal.start_task_soon(f).result(timeout=4)
                                    got["out"] = "returned"
                            except _Boom as e:
                                got["out"] = "same" if e is boom else "another _Boom"
                            except concurrent.futures.TimeoutError:
                                got["out"] = "hung"
                            except BaseException as e:  # noqa: BLE001
                                got["out"] = type(e).__name__
                    except BaseException as e:  # noqa: BLE001
                        got["exit"] = type(e).__name__

                t = threading.Thread(target=target, daemon=True)
                t.start()
                t.join(20)
                res.evaluations += 1
                res.stats["baseexception_cases"] = res.stats.get("baseexception_cases", 0) + 1
                if t.is_alive() or got.get("out") != "same":
                    res.violations.append(Violation(
                        case, f"a portal task ({api}, {kind}, {loop}) raised a BaseException that is not an "
                              f"Exception: the caller observed {got.get('out', 'nothing (still blocked)')!r} "
                              f"instead of that exception", "C15:baseexception-not-delivered"))


def run(ctx: Ctx) -> Result:
    res = Result(rule="1..4 (quick) / 1..6 (thorough) calls from their own caller threads through "
                      "portal.call / start_task_soon / start_task (plain callables, gated coroutines that "
                      "return or raise, started() or not), random orders of release, Future.cancel(), "
                      "portal.stop(cancel_remaining) and leaving start_blocking_portal() (with / without an "
                      "exception), requests parked in front of a blocked loop; asyncio and uvloop; "
                      "non-trivial = a future cancellation, stop, exit-with-live-tasks, blocked loop or a "
                      "non-value outcome occurred; distinct = distinct request/observation traces")
    cases = list(load_corpus("C15"))
    if ctx.focus is not None:
        cases.append(ctx.focus)
    quick = ctx.tier == "quick"
    n = ctx.n(500, 6000)
    for k in range(n):
        if k % 5 == 4:
            cases.append(gen_blocked(ctx.rng))
        else:
            cases.append(gen_case(ctx.rng, 4 if quick else 6))
    for k in range(0, len(cases), 100):
        run_cases(cases[k: k + 100], res, ctx)
        if ctx.time_left() < 8 or res.stats.get("aborted_after_hang") or len(res.violations) > 20:
            break
    hit = res.stats.get("model_branch_hits", {})
    res.stats["model_branches_unhit"] = [b for b in ALL_BRANCHES if b not in hit]
    if ctx.focus is None:
        run_baseexception_leg(res)
    return res


def replay(ctx: Ctx, case: Any) -> Result:
    res = Result(rule="replay")
    if isinstance(case, dict) and "baseexception" in case:
        run_baseexception_leg(res, only=case["baseexception"])
    else:
        run_cases([case], res)
    return res


ASSUMPTIONS = [
    "modelled, not verified: scheduling of the caller threads, concurrent.futures.Future internals (the "
    "check-then-set `if not future.cancelled(): future.set_result()` in _call_func is taken as atomic "
    "w.r.t. Future.cancel() in another thread), loop.call_soon_threadsafe (FIFO, exactly once), thread "
    "join, the portal task group's join (C01_join of the kernel model, here the enabling condition of "
    "`exit`)",
    "non-Exception BaseExceptions raised by a callable (re-raised into the portal's task group) are outside "
    "the model and the generator",
]

if __name__ == "__main__":
    import sys
    from .common import check_main

    try:
        code = check_main("C15", run, replay=replay, models=["portal"], assumptions=ASSUMPTIONS,
                          technique_note="Lean 4 theorems over the BlockingPortal LTS (all event lists: "
                                         "exactly-once execution, single-assignment futures, cancellation "
                                         "routing, refusal after stop, join on exit) + real caller threads "
                                         "against a real portal thread replayed in the model + history "
                                         "oracle; partial: thread scheduling, concurrent.futures and "
                                         "call_soon_threadsafe are named assumptions")
    except HarnessError as e:
        print(f"C15 harness error (no verdict): {e}", file=sys.stderr)
        code = 2
    sys.exit(code)
