"""C19 anyio.itertools / functools.reduce agree with the standard library; tee.

Three-way comparison on every input (DESIGN section 5, C19):

    real anyio.itertools.f (sync source, async source)      -- the code under test
    itertools.f / functools.reduce                          -- the oracle of the property text
    impl_f and spec_f evaluated by the Lean driver md_iter  -- the model and its specification

* oracle (property text): anyio's result (yielded values, class of the exception) equals the
  stdlib's for the same arguments, for both kinds of source          -> Violation
* correspondence: impl_f == anyio's result; spec_f == the stdlib's result (this leg ties the
  Lean `spec_f`, about which the theorems speak, to CPython)          -> Disagreement

tee: every interleaving (at the granularity "consumer i calls anext" / "the source answers",
each followed by running the loop until it is quiet) of <= 3 consumers over <= 4 elements on the
real code, plus random finer-grained ones where single loop cycles are schedule letters; the
event list is replayed by the Lean LTS (md_tee); oracle: every consumer sees the whole source
sequence and the source's __anext__ is called len+1 times.
"""

from __future__ import annotations

import asyncio
import functools
import itertools
import operator
import random
import sys
import warnings
from typing import Any, Callable

import anyio
import anyio.itertools as ai
from anyio.functools import reduce as anyio_reduce

from .common import Ctx, Disagreement, Result, Violation, load_corpus, run_model

warnings.filterwarnings("ignore", category=RuntimeWarning)

NONE_FILL = -99  # canonical stand-in for zip_longest's default fillvalue None

# --------------------------------------------------------------------------- callbacks

BINOPS: dict[str, Callable[[int, int], int]] = {
    "add": operator.add,
    "sub": operator.sub,
    "mul": operator.mul,
    "max": max,
    "lin": lambda a, b: 2 * a + b,
}
PREDS: dict[str, Callable[[int], bool]] = {
    "lt1": lambda x: x < 1,
    "lt2": lambda x: x < 2,
    "even": lambda x: x % 2 == 0,
    "eq1": lambda x: x == 1,
    "true": lambda x: True,
    "false": lambda x: False,
}
KEYS: dict[str, Callable[[int], int] | None] = {
    "none": None,
    "id": lambda x: x,
    "parity": lambda x: x % 2,
    "const": lambda x: 0,
}
STARFS: dict[str, Callable[..., int]] = {
    "sum": lambda *a: sum(a),
    "len": lambda *a: len(a),
    "first": lambda *a: a[0] if a else 0,
}


def mk_async(f: Callable[..., Any]) -> Callable[..., Any]:
    async def g(*a: Any) -> Any:
        return f(*a)

    return g


# --------------------------------------------------------------------------- sources


async def _agen(xs: list, suspend: bool):
    for x in xs:
        if suspend:
            await asyncio.sleep(0)
        yield x


class AsyncSeq:
    """a re-iterable async source (the async analogue of a list): every __aiter__ starts over"""

    def __init__(self, xs: list, suspend: bool) -> None:
        self.xs, self.suspend = list(xs), suspend

    def __aiter__(self) -> Any:
        return _agen(self.xs, self.suspend)


def src(xs: list, kind: str) -> Any:
    """the same element sequence as a sync or an async iterable"""
    if kind == "areiter":
        return AsyncSeq(xs, False)
    if kind == "areiters":
        return AsyncSeq(xs, True)
    if kind == "sync":
        return list(xs)
    if kind == "iter":
        return iter(list(xs))
    if kind == "async":
        return _agen(list(xs), False)
    return _agen(list(xs), True)  # "asyncs": suspends before every element


# --------------------------------------------------------------------------- canonical form


def render(v: Any) -> str:
    if v is None:
        return str(NONE_FILL)
    if isinstance(v, bool):
        return str(int(v))
    if isinstance(v, int):
        return str(v)
    return "(" + ",".join(render(x) for x in v) + ")"


def errname(e: BaseException) -> str:
    if isinstance(e, TypeError):
        return "TypeError"
    if isinstance(e, ValueError):
        return "ValueError"
    return "exc:" + type(e).__name__


def canon(items: list, err: str | None) -> str:
    """what the Lean side can express: the whole list, or the class of the error"""
    if err is not None:
        return "err:" + err
    return "ok:[" + ",".join(render(x) for x in items) + "]"


def canon_full(items: list, err: str | None) -> str:
    """python-side comparison also keeps what was yielded before an error"""
    return "[" + ",".join(render(x) for x in items) + "]" + ("" if err is None else "!" + err)


# --------------------------------------------------------------------------- the three legs

INFINITE = {"count", "cycle", "repeat"}


def _batched_ref(xs: list, n: Any, strict: bool):
    """itertools.batched of Python 3.13 (documentation's equivalent); 3.12 has no `strict`"""
    if sys.version_info >= (3, 13):
        return itertools.batched(xs, n, strict=strict)
    if not strict:
        return itertools.batched(xs, n)

    def gen():
        if n < 1:
            raise ValueError("n must be at least one")
        it = iter(xs)
        while batch := tuple(itertools.islice(it, n)):
            if strict and len(batch) != n:
                raise ValueError("batched(): incomplete batch")
            yield batch

    return gen()


def std_call(case: dict) -> tuple[list, str | None]:
    """the standard library on the case"""
    f, a, d = case["f"], case["args"], case["data"]
    out: list = []
    try:
        if f == "accumulate":
            it = itertools.accumulate(d, BINOPS[a[0]], initial=a[1])
        elif f == "batched":
            it = _batched_ref(d, a[0], bool(a[1]))
        elif f == "chain":
            it = itertools.chain(*d)
        elif f == "chain_from_iterable":
            it = itertools.chain.from_iterable(d)
        elif f == "combinations":
            it = itertools.combinations(d, a[0])
        elif f == "combinations_with_replacement":
            it = itertools.combinations_with_replacement(d, a[0])
        elif f == "permutations":
            it = itertools.permutations(d, a[0])
        elif f == "product":
            it = itertools.product(*d, repeat=a[0])
        elif f == "compress":
            it = itertools.compress(d[0], d[1])
        elif f == "count":
            it = itertools.islice(itertools.count(a[1], a[2]), a[0])
        elif f == "cycle":
            it = itertools.islice(itertools.cycle(d), a[0])
        elif f == "repeat":
            # `times=None` is anyio's spelling of "argument omitted" (the stdlib rejects an
            # explicit None)
            rep = itertools.repeat(a[1]) if a[2] is None else itertools.repeat(a[1], a[2])
            it = itertools.islice(rep, a[0])
        elif f == "dropwhile":
            it = itertools.dropwhile(PREDS[a[0]], d)
        elif f == "filterfalse":
            it = itertools.filterfalse(PREDS[a[0]], d)
        elif f == "takewhile":
            it = itertools.takewhile(PREDS[a[0]], d)
        elif f == "groupby":
            it = ((k, list(g)) for k, g in itertools.groupby(d, KEYS[a[0]]))
        elif f == "islice":
            it = itertools.islice(d, *a)
        elif f == "pairwise":
            it = itertools.pairwise(d)
        elif f == "starmap":
            it = itertools.starmap(STARFS[a[0]], d)
        elif f == "zip_longest":
            it = itertools.zip_longest(*d) if a[0] is None else itertools.zip_longest(*d, fillvalue=a[0])
        elif f == "reduce":
            if a[1] is None:
                return [functools.reduce(BINOPS[a[0]], d)], None
            return [functools.reduce(BINOPS[a[0]], d, a[1])], None
        else:
            raise KeyError(f)
        for x in it:
            out.append(x)
    except Exception as e:  # noqa: BLE001
        return out, errname(e)
    return out, None


def anyio_make(case: dict, kind: str) -> Any:
    f, a, d = case["f"], case["args"], case["data"]
    S = lambda xs: src(xs, kind)  # noqa: E731
    if f == "accumulate":
        return ai.accumulate(S(d), mk_async(BINOPS[a[0]]), initial=a[1])
    if f == "batched":
        return ai.batched(S(d), a[0], strict=bool(a[1]))
    if f == "chain":
        return ai.chain(*[S(x) for x in d])
    if f == "chain_from_iterable":
        return ai.chain.from_iterable(S([S(x) for x in d]))
    if f == "combinations":
        return ai.combinations(S(d), a[0])
    if f == "combinations_with_replacement":
        return ai.combinations_with_replacement(S(d), a[0])
    if f == "permutations":
        return ai.permutations(S(d), a[0])
    if f == "product":
        return ai.product(*[S(x) for x in d], repeat=a[0])
    if f == "compress":
        return ai.compress(S(d[0]), S(d[1]))
    if f == "count":
        return ai.count(a[1], a[2])
    if f == "cycle":
        return ai.cycle(S(d))
    if f == "repeat":
        return ai.repeat(a[1], a[2])
    if f == "dropwhile":
        return ai.dropwhile(mk_async(PREDS[a[0]]), S(d))
    if f == "filterfalse":
        return ai.filterfalse(mk_async(PREDS[a[0]]), S(d))
    if f == "takewhile":
        return ai.takewhile(mk_async(PREDS[a[0]]), S(d))
    if f == "groupby":
        k = KEYS[a[0]]
        return ai.groupby(S(d)) if k is None else ai.groupby(S(d), mk_async(k))
    if f == "islice":
        return ai.islice(S(d), *a)
    if f == "pairwise":
        return ai.pairwise(S(d))
    if f == "starmap":
        return ai.starmap(mk_async(STARFS[a[0]]), S([S(x) for x in d]))
    if f == "zip_longest":
        its = [S(x) for x in d]
        return ai.zip_longest(*its) if a[0] is None else ai.zip_longest(*its, fillvalue=a[0])
    raise KeyError(f)


RUNAWAY = 200000  # a finite input never legitimately produces that many results here


async def anyio_call(case: dict, kind: str) -> tuple[list, str | None]:
    """the real AnyIO function on the case, source given as `kind`"""
    f, a, d = case["f"], case["args"], case["data"]
    out: list = []
    try:
        async with asyncio.timeout(5.0):
            if f == "reduce":
                fn = mk_async(BINOPS[a[0]])
                if a[1] is None:
                    return [await anyio_reduce(fn, src(d, kind))], None
                return [await anyio_reduce(fn, src(d, kind), a[1])], None
            gen = anyio_make(case, kind)
            if f in INFINITE:
                take = a[0]
                try:
                    while len(out) < take:
                        out.append(await anext(gen))
                except StopAsyncIteration:
                    pass
                finally:
                    await gen.aclose()
            else:
                async for x in gen:
                    out.append(x if f != "groupby" else (x[0], list(x[1])))
                    if len(out) > RUNAWAY:
                        await gen.aclose()
                        return out[:50], "exc:Runaway"
    except TimeoutError:
        return out[:50], "exc:Timeout"
    except Exception as e:  # noqa: BLE001
        return out, errname(e)
    return out, None


def fmt_list(xs: list) -> str:
    return " ".join(str(x) for x in xs)


def fmt_lists(xss: list) -> str:
    return " ".join(fmt_list(x) + " ;" if x else ";" for x in xss)


def tok(v: Any) -> str:
    return "N" if v is None else str(v)


def model_line(case: dict, kind: str) -> str:
    f, a, d = case["f"], case["args"], case["data"]
    if f in ("chain", "chain_from_iterable", "product", "starmap", "compress", "zip_longest"):
        args = [tok(NONE_FILL if (f == "zip_longest" and a[0] is None) else x) for x in a]
        return f"{f} {' '.join(args)} : {fmt_lists(d)}"
    if f == "reduce":
        return f"reduce {a[0]} {tok(a[1])} {'sync' if kind in ('sync', 'iter') else 'async'} : {fmt_list(d)}"
    if f in ("count", "repeat"):
        return f"{f} {' '.join(tok(x) for x in a)} :"
    return f"{f} {' '.join(tok(x) for x in a)} : {fmt_list(d)}"


# --------------------------------------------------------------------------- generators

ALPHA = (0, 1, 2)
PARAMS: list[int | None] = [None] + list(range(-2, 8))


def seqs(maxlen: int, alpha: tuple = ALPHA) -> list[list[int]]:
    out: list[list[int]] = []
    for n in range(maxlen + 1):
        out += [list(t) for t in itertools.product(alpha, repeat=n)]
    return out


def list_tuples(max_lists: int, maxlen: int) -> list[list[list[int]]]:
    base = seqs(maxlen)
    out: list[list[list[int]]] = []
    for k in range(max_lists + 1):
        out += [[list(x) for x in t] for t in itertools.product(base, repeat=k)]
    return out


def gen_function_cases(f: str, maxlen: int) -> list[dict]:
    """the full small-scope space of one function"""
    C = lambda args, data: {"f": f, "args": list(args), "data": data}  # noqa: E731
    S = seqs(maxlen)
    out: list[dict] = []
    if f == "accumulate":
        out = [C((op, i), s) for op in BINOPS for i in (None, 0, 2) for s in S]
    elif f == "batched":
        out = [C((n, st), s) for n in PARAMS for st in (0, 1) for s in S]
    elif f in ("chain", "chain_from_iterable"):
        out = [C((), t) for t in list_tuples(3, 2 if maxlen <= 5 else 3)]
    elif f in ("combinations", "combinations_with_replacement", "permutations"):
        out = [C((r,), s) for r in PARAMS for s in seqs(min(maxlen, 5))]
    elif f == "product":
        out = [C((r,), t) for r in [None, -2, -1, 0, 1, 2, 3] for t in list_tuples(3, 2)]
    elif f == "compress":
        out = [C((), [d, sel]) for d in seqs(min(maxlen, 4) if maxlen <= 5 else 5)
               for sel in seqs(maxlen, (0, 1)) + [[2, 0, 2], [0, 2]]]
    elif f == "count":
        out = [C((t, a, b), []) for t in range(0, 9) for a in range(-2, 8) for b in range(-2, 8)]
    elif f == "cycle":
        out = [C((t,), s) for t in range(0, 2 * maxlen + 3) for s in S]
    elif f == "repeat":
        out = [C((t, x, n), []) for t in range(0, 9) for x in (0, 1) for n in PARAMS]
    elif f in ("dropwhile", "filterfalse", "takewhile"):
        out = [C((p,), s) for p in PREDS for s in S]
    elif f == "groupby":
        out = [C((k,), s) for k in KEYS for s in S]
    elif f == "islice":
        ranges = [list(range(n)) for n in range(maxlen + 4)]
        out = [C((), s) for s in ranges[:3]]
        out += [C((a,), s) for a in PARAMS for s in S]
        out += [C((a, b), s) for a in PARAMS for b in PARAMS for s in ranges]
        out += [C((a, b, c), s) for a in PARAMS for b in PARAMS for c in PARAMS for s in ranges]
        out += [C((a, b, c, 1), s) for a in (None, 0) for b in (None, 3) for c in (None, 1)
                for s in ranges[:4]]
    elif f == "pairwise":
        out = [C((), s) for s in S]
    elif f == "starmap":
        out = [C((g,), t) for g in STARFS for t in list_tuples(3, 2)]
    elif f == "zip_longest":
        out = [C((fill,), t) for fill in (7, None) for t in list_tuples(3, 2 if maxlen <= 5 else 3)]
    elif f == "reduce":
        out = [C((op, i), s) for op in BINOPS for i in (None, 0, 2, -1) for s in S]
    return out


def gen_sampled_islice(rng: random.Random, n: int, maxlen: int) -> list[dict]:
    """islice with 2-3 arguments over the letter sequences (the full product is ~5*10^5)"""
    S = seqs(maxlen)
    out = []
    for _ in range(n):
        k = rng.choice((2, 3, 3))
        out.append({"f": "islice", "args": [rng.choice(PARAMS) for _ in range(k)], "data": rng.choice(S)})
    return out


def gen_random_long(rng: random.Random, f: str) -> dict:
    """longer random inputs, integer elements -3..9"""
    L = rng.randint(6, 40)
    xs = [rng.randint(-3, 9) for _ in range(L)]
    small = lambda: rng.choice([None, *range(-2, 12)])  # noqa: E731
    ll = lambda: [[rng.randint(-3, 9) for _ in range(rng.randint(0, 6))] for _ in range(rng.randint(0, 5))]  # noqa: E731
    C = lambda args, data: {"f": f, "args": list(args), "data": data}  # noqa: E731
    if f == "accumulate":
        return C((rng.choice(list(BINOPS)), rng.choice([None, 0, 3])), xs[:20])
    if f == "batched":
        return C((small(), rng.randint(0, 1)), xs)
    if f in ("chain", "chain_from_iterable"):
        return C((), ll())
    if f in ("combinations", "combinations_with_replacement", "permutations"):
        return C((rng.choice([None, -1, 0, 1, 2, 3]),), xs[: rng.randint(0, 6)])
    if f == "product":
        return C((rng.choice([None, -1, 0, 1, 2]),), [x[:4] for x in ll()[:3]])
    if f == "compress":
        return C((), [xs, [rng.randint(0, 2) for _ in range(rng.randint(0, 45))]])
    if f == "count":
        return C((rng.randint(0, 40), rng.randint(-50, 50), rng.randint(-9, 9)), [])
    if f == "cycle":
        return C((rng.randint(0, 90),), xs[: rng.randint(0, 12)])
    if f == "repeat":
        return C((rng.randint(0, 40), rng.randint(-3, 9), rng.choice([None, *range(-3, 50)])), [])
    if f in ("dropwhile", "filterfalse", "takewhile"):
        return C((rng.choice(list(PREDS)),), [rng.randint(-1, 3) for _ in range(L)])
    if f == "groupby":
        return C((rng.choice(list(KEYS)),), [rng.randint(0, 3) for _ in range(L)])
    if f == "islice":
        return C([rng.choice([None, *range(-1, 45)]) for _ in range(rng.randint(1, 3))], xs)
    if f == "pairwise":
        return C((), xs)
    if f == "starmap":
        return C((rng.choice(list(STARFS)),), ll())
    if f == "zip_longest":
        return C((rng.choice([7, None]),), ll())
    if f == "reduce":
        return C((rng.choice(list(BINOPS)), rng.choice([None, 0, 3])), xs[:20])
    raise KeyError(f)


FUNCTIONS = [
    "islice", "batched", "groupby", "accumulate", "zip_longest", "pairwise", "compress",
    "takewhile", "dropwhile", "filterfalse", "chain", "chain_from_iterable", "starmap",
    "cycle", "count", "repeat", "combinations", "combinations_with_replacement",
    "permutations", "product", "reduce",
]

# --------------------------------------------------------------------------- running cases


def nontrivial(case: dict, std_items: list, std_err: str | None) -> bool:
    """rule: the stdlib answer is an error, or a non-empty result that is not simply the input
    sequence handed through"""
    if std_err is not None:
        return True
    return bool(std_items) and std_items != case["data"]


async def _run_real(cases: list[dict], kinds: list[tuple[str, str]]) -> list[list[tuple[list, str | None]]]:
    out = []
    for case, ks in zip(cases, kinds):
        out.append([await anyio_call(case, k) for k in ks])
    return out


def run_iter_cases(cases: list[dict], res: Result, start_index: int = 0) -> None:
    """three legs on a batch of cases"""
    if not cases:
        return
    kinds = []
    for i, _ in enumerate(cases):
        j = start_index + i
        kinds.append(("sync" if j % 4 else "iter", ("async", "asyncs", "areiter", "async", "asyncs", "areiters")[j % 6]))
    real = asyncio.run(_run_real(cases, kinds))
    lines: list[str] = []
    for case, ks in zip(cases, kinds):
        lines.append(model_line(case, ks[0]))
        if case["f"] == "reduce":
            lines.append(model_line(case, ks[1]))
    replies = run_model("iter", lines)
    pos = 0
    per_f = res.stats.setdefault("cases_per_function", {})
    outc = res.stats.setdefault("outcomes", {})
    for case, ks, rr in zip(cases, kinds, real):
        f = case["f"]
        rep = [replies[pos]]
        pos += 1
        if f == "reduce":
            rep.append(replies[pos])
            pos += 1
        res.evaluations += 1
        per_f[f] = per_f.get(f, 0) + 1
        s_items, s_err = std_call(case)
        key = f + ":" + (s_err or ("empty" if not s_items else "values"))
        outc[key] = outc.get(key, 0) + 1
        std_c, std_full = canon(s_items, s_err), canon_full(s_items, s_err)
        if f == "reduce" and s_err is None:
            std_c = "ok:" + render(s_items[0])
        bad = False
        # oracle: the property text, on the real code
        for k, (items, err) in zip(ks, rr):
            if canon_full(items, err) != std_full:
                res.violations.append(Violation(
                    dict(case, kind=k),
                    f"anyio.itertools.{f}{tuple(case['args'])} over {k} source {case['data']} gives "
                    f"{canon_full(items, err)}, the standard library gives {std_full}"
                    if f != "reduce" else
                    f"anyio.functools.reduce({case['args']}) over {k} source {case['data']} gives "
                    f"{canon_full(items, err)}, functools.reduce gives {std_full}",
                    f"C19:{f}"))
                bad = True
        # correspondence: model legs
        for idx, r in enumerate(rep):
            if " spec=" not in r:
                res.disagreements.append(Disagreement(case, f"driver reply {r!r} to {model_line(case, ks[idx])!r}"))
                bad = True
                continue
            impl_r, spec_r = r[len("impl="):].split(" spec=")
            items, err = rr[idx] if f == "reduce" else rr[0]
            real_c = canon(items, err)
            if f == "reduce" and err is None:
                real_c = "ok:" + render(items[0])
            if impl_r != real_c:
                res.disagreements.append(Disagreement(
                    case, f"{f}: impl_{f} = {impl_r} but anyio = {real_c} ({model_line(case, ks[idx])})"))
                bad = True
            if f != "reduce":
                items2, err2 = rr[1]
                if impl_r != canon(items2, err2):
                    res.disagreements.append(Disagreement(
                        case, f"{f}: impl_{f} = {impl_r} but anyio over {ks[1]} source = {canon(items2, err2)}"))
                    bad = True
            if spec_r != std_c:
                res.disagreements.append(Disagreement(
                    case, f"{f}: spec_{f} = {spec_r} but the standard library = {std_c} ({model_line(case, ks[idx])})"))
                bad = True
        if not bad:
            res.traces_validated += 1
        if nontrivial(case, s_items, s_err):
            res.nontrivial.add(hash((f, repr(case["args"]), repr(case["data"]))))
            if len(res.samples) < 5 and f in ("islice", "batched", "groupby") and len(case["data"]) >= 3 \
                    and not any(s["case"]["f"] == f for s in res.samples):
                res.samples.append({"case": case, "stdlib": std_full, "anyio": canon_full(*rr[0]),
                                    "model": rep[0]})


def run_iter(ctx: Ctx, res: Result, t_end: float) -> None:
    """all functions, until the absolute time `t_end`.  The functions are served round-robin in
    chunks so that a slow machine shortens every function's sample instead of dropping the last
    functions altogether."""
    import time
    quick = ctx.tier == "quick"
    maxlen = 5 if quick else 7
    cap = ctx.n(3600, 60000)
    rnd_n = ctx.n(40, 1500)
    sampled = res.stats.setdefault("subsampled_functions", {})
    focus_f = ctx.focus.get("f") if isinstance(ctx.focus, dict) and "f" in (ctx.focus or {}) else None
    funcs = FUNCTIONS if focus_f is None else [focus_f] + [f for f in FUNCTIONS if f != focus_f]
    todo: dict[str, list[dict]] = {}
    for f in funcs:
        cases = gen_function_cases(f, maxlen)
        if f == "islice":
            cases += gen_sampled_islice(ctx.rng, ctx.n(3000, 120000), maxlen)
        mycap = cap * (3 if f == "islice" else 1) * (4 if f == focus_f else 1)
        if len(cases) > mycap:
            sampled[f] = f"{mycap} of {len(cases)}"
            cases = ctx.rng.sample(cases, mycap)
        else:
            ctx.rng.shuffle(cases)
        # random long inputs first: they are few and must never be cut
        todo[f] = [gen_random_long(ctx.rng, f) for _ in range(rnd_n)] + cases
    chunk = 600 if quick else 3000
    idx = 0
    done = {f: 0 for f in funcs}
    while any(done[f] < len(todo[f]) for f in funcs):
        for f in funcs:
            if done[f] >= len(todo[f]):
                continue
            if time.time() > t_end and done[f] > 0:
                continue
            run_iter_cases(todo[f][done[f]: done[f] + chunk], res, idx)
            idx += chunk
            done[f] = min(len(todo[f]), done[f] + chunk)
        if time.time() > t_end:
            break
    cut = {f: f"{done[f]} of {len(todo[f])}" for f in funcs if done[f] < len(todo[f])}
    if cut:
        res.stats["time_cut"] = cut
    res.exhaustive = not sampled and not cut


# --------------------------------------------------------------------------- tee

from .c19_tee import run_tee, replay_tee  # noqa: E402


# --------------------------------------------------------------------------- run


def run_odd_equality(res: Result) -> None:
    """Elements whose equality is not the textbook one: the same NaN object repeated, objects whose
    __eq__ is never true, objects whose __ne__ disagrees with __eq__.  The Lean models assume lawful
    equality, so these inputs are compared against the standard library only (oracle leg); found
    F12 (groupby compared with != instead of identity-then-==)."""
    import itertools as std

    nan = float("nan")

    class NeverEq:
        def __eq__(self, o: object) -> bool:
            return False

        def __hash__(self) -> int:
            return 1

    class NeAlwaysFalse:
        def __init__(self, v: int) -> None:
            self.v = v

        def __eq__(self, o: object) -> bool:
            return isinstance(o, NeAlwaysFalse) and o.v == self.v

        def __ne__(self, o: object) -> bool:
            return False

        def __hash__(self) -> int:
            return self.v

    k = NeverEq()
    a1, a2 = NeAlwaysFalse(1), NeAlwaysFalse(2)
    pools = [[nan, 1], [k, 1], [a1, a2, NeAlwaysFalse(1)]]

    async def groups(data: list, source: str) -> list:
        it = data if source == "sync" else _agen(list(data), False)
        return [(id(key), [id(x) for x in vals]) async for key, vals in ai.groupby(it)]

    for pool in pools:
        for n in range(0, 5):
            for idx in itertools.product(range(len(pool)), repeat=n):
                data = [pool[i] for i in idx]
                want = [(id(key), [id(x) for x in vals]) for key, vals in std.groupby(data)]
                for source in ("sync", "async"):
                    got = anyio.run(groups, data, source)
                    res.evaluations += 1
                    res.stats["odd_equality_cases"] = res.stats.get("odd_equality_cases", 0) + 1
                    if got != want:
                        res.violations.append(Violation(
                            {"groupby_odd_equality": [type(x).__name__ for x in data], "source": source},
                            f"groupby over {len(data)} elements with non-textbook equality "
                            f"({[type(x).__name__ for x in data]}) yields {len(got)} groups, "
                            f"itertools.groupby {len(want)}", "C19:groupby-odd-equality"))
                        return


def run_partial_callbacks(res: Result) -> None:
    """Callbacks that are not total or not pure: a predicate that raises on a poison element and
    records every call.  The standard library fixes how often and on which elements the callback is
    invoked; anyio must agree on the yielded prefix, the error class AND the calls made."""
    import itertools as std

    POISON = "z"

    def mk():
        calls: list = []

        def pred(x: Any) -> bool:
            calls.append(x)
            if x == POISON:
                raise TypeError("poison")
            return x < 3

        async def apred(x: Any) -> bool:
            return pred(x)

        return calls, pred, apred

    def drain_std(it: Any) -> tuple[list, str | None]:
        out: list = []
        try:
            for x in it:
                out.append(x)
        except Exception as e:  # noqa: BLE001
            return out, type(e).__name__
        return out, None

    async def drain_any(it: Any) -> tuple[list, str | None]:
        out: list = []
        try:
            async for x in it:
                out.append(x)
        except Exception as e:  # noqa: BLE001
            return out, type(e).__name__
        return out, None

    fns = {
        "dropwhile": (lambda p, d: std.dropwhile(p, d), lambda p, d: ai.dropwhile(p, d)),
        "takewhile": (lambda p, d: std.takewhile(p, d), lambda p, d: ai.takewhile(p, d)),
        "filterfalse": (lambda p, d: std.filterfalse(p, d), lambda p, d: ai.filterfalse(p, d)),
    }
    alpha = [0, 1, 5, POISON]
    for name, (fs, fa) in fns.items():
        for n in range(0, 5):
            for data in itertools.product(alpha, repeat=n):
                data = list(data)
                c1, p1, _ = mk()
                want = drain_std(fs(p1, data))
                for source in ("sync", "async"):
                    c2, _, ap2 = mk()
                    srcobj = data if source == "sync" else _agen(list(data), False)
                    got = anyio.run(drain_any, fa(ap2, srcobj))
                    res.evaluations += 1
                    res.stats["partial_callback_cases"] = res.stats.get("partial_callback_cases", 0) + 1
                    if got != want or c2 != c1:
                        res.violations.append(Violation(
                            {"partial_callback": name, "data": data, "source": source},
                            f"{name} with a non-total predicate over {data}: anyio yields {got} with predicate "
                            f"calls {c2}, itertools yields {want} with calls {c1}", f"C19:{name}-callback-calls"))
                        return


def run_cancel_retry(res: Result) -> None:
    """A consumer whose `anext` is interrupted by a cancellation and who then simply calls it again
    must not lose an element of a synchronous source: the element is pulled from the source before
    the (shielded) checkpoint.  Sweeps the cancellation over every scheduling point."""
    from anyio import CancelScope

    async def sweep(ncons: int, data: list, at: int, target: int = 0, lag: bool = False) -> list[list]:
        its = ai.tee(list(data), ncons)
        seen: list[list] = [[] for _ in its]
        cur: list[Any] = [None] * ncons
        first_done = anyio.Event()

        async def consume(i: int) -> None:
            if lag and i > 0:
                # the others replay from the buffer once consumer 0 has run through the source
                await first_done.wait()
            while True:
                with CancelScope() as sc:
                    cur[i] = sc
                    try:
                        x = await anext(its[i])
                    except StopAsyncIteration:
                        if i == 0:
                            first_done.set()
                        return
                    seen[i].append(x)

        async def controller() -> None:
            if lag and target > 0:
                await first_done.wait()
            for _ in range(at):
                await asyncio.sleep(0)
            if cur[target] is not None:
                cur[target].cancel()

        # (a consumer that never comes back - e.g. stuck on the tee's lock - ends the run with TimeoutError,
        # which is reported as what the consumers observed)
        with anyio.fail_after(10):
            async with anyio.create_task_group() as tg:
                for i in range(ncons):
                    tg.start_soon(consume, i)
                tg.start_soon(controller)
        return seen

    data = ["a", "b", "c", "d"]
    combos = [(n, t, lag) for n in (1, 2, 3) for t in range(n) for lag in (False, True) if not (lag and n == 1)]
    for ncons, target, lag in combos:
        for at in range(0, 16):
            try:
                seen = anyio.run(sweep, ncons, data, at, target, lag)
            except BaseException as e:  # noqa: BLE001
                seen = [[f"raised {type(e).__name__}"]]
            res.evaluations += 1
            res.stats["cancel_retry_cases"] = res.stats.get("cancel_retry_cases", 0) + 1
            if any(s_ != data for s_ in seen):
                res.violations.append(Violation(
                    {"tee_cancel_retry": {"consumers": ncons, "cancel_after_yields": at, "target": target,
                                          "lag": lag}},
                    f"tee over the synchronous list {data} with {ncons} consumer(s), consumer {target} "
                    f"{'(replaying buffered elements) ' if lag and target else ''}cancelled once "
                    f"after {at} scheduling steps and retrying: consumers observed {seen}",
                    "C19:element-lost-on-cancelled-anext"))
                return


def run(ctx: Ctx) -> Result:
    res = Result(rule="per function: all element sequences over {0,1,2} up to length 5 (quick) / 7 "
                      "(thorough) x all small parameters -2..7 and None x a fixed family of pure "
                      "callbacks, subsampled from ctx.rng where the product is too large (reported in "
                      "stats.subsampled_functions), plus random longer inputs; every case over a sync "
                      "and an async source. Non-trivial = the stdlib answer is an error or a non-empty "
                      "result different from the input sequence; distinct = distinct "
                      "(function, args, data). tee: see stats.tee")
    corpus = load_corpus("C19")
    it_corpus = [c for c in corpus if "f" in c]
    tee_corpus = [c for c in corpus if "tee" in c]
    if it_corpus:
        run_iter_cases(it_corpus, res)
    import time
    now = time.time()
    budget = max(5.0, min(30.0 if ctx.tier == "quick" else 480.0, ctx.time_left() - 16.0))
    focus_tee = isinstance(ctx.focus, dict) and "tee" in ctx.focus
    if focus_tee:
        run_tee(ctx, res, tee_corpus, now + 0.6 * budget)
        run_iter(ctx, res, now + budget)
    else:
        run_iter(ctx, res, now + 0.62 * budget)
        run_tee(ctx, res, tee_corpus, now + budget)
    run_odd_equality(res)
    run_partial_callbacks(res)
    run_cancel_retry(res)
    # tee under cancellation: its own model (Iter/TeeCancel.lean), trace validation and oracle
    from . import c19_teecancel

    tc = c19_teecancel.run(ctx, budget_s=7.0 if ctx.tier == "quick" else 120.0)
    res.violations += tc.violations
    res.disagreements += tc.disagreements
    res.evaluations += tc.evaluations
    res.traces_validated += tc.traces_validated
    res.nontrivial |= {("teecancel", x) for x in tc.nontrivial}
    res.stats["teecancel"] = tc.stats
    res.samples += tc.samples[:1]
    # the smallest failing input of every kind first (check_main reports one per signature)
    res.violations.sort(key=lambda v: len(repr(v.case)))
    res.disagreements.sort(key=lambda d: len(repr(d.case)))
    return res


def replay(ctx: Ctx, case: Any) -> Result:
    res = Result(rule="replay")
    if isinstance(case, dict) and "teecancel" in case:
        from . import c19_teecancel

        return c19_teecancel.replay(ctx, case)
    if isinstance(case, dict) and ("tee" in case or "tee_args" in case):
        replay_tee(case, res)
    elif isinstance(case, dict) and "tee_cancel_retry" in case:
        run_cancel_retry(res)
    elif isinstance(case, dict) and "groupby_odd_equality" in case:
        run_odd_equality(res)
    elif isinstance(case, dict) and "partial_callback" in case:
        run_partial_callbacks(res)
    else:
        case = {k: v for k, v in case.items() if k != "kind"}
        run_iter_cases([case], res)
    return res


if __name__ == "__main__":
    from .common import check_main

    sys.exit(check_main(
        "C19", run, replay=replay, models=["iter", "tee", "teecancel"],
        technique_note="Lean 4 theorems impl_f = spec_f for all inputs (induction) + three-way "
                       "differential check anyio / CPython itertools / Lean impl_f, spec_f; tee: LTS "
                       "theorems over all event lists + trace validation of the real tee; tee under "
                       "cancellation: a second LTS (every suspension point cancellable or shielded as in the "
                       "code) with no-loss / source-once / lock-free theorems + trace validation",
        assumptions=["CPython's itertools.combinations/combinations_with_replacement/permutations/"
                     "product are trusted (AnyIO delegates to them after collecting the pools)",
                     "callbacks are pure and total; nobody cancels during the iteration",
                     "batched(strict=True) is compared with the Python 3.13 documentation's "
                     "equivalent on Python 3.12, which has no `strict`"]))
